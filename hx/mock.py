"""Catalogue-typed mock stores for evaluating one line definition in isolation.

A read of `form.name` is resolved against the year's catalogue; the value
returned is a draw (Hypothesis, or a recorded value on replay) of the
catalogue's declared type for that name. Reads are logged."""
from collections.abc import Mapping

from hypothesis import strategies as st

import habutax.form as hform

from hx import catalog

import json as _json
import os as _os
with open(_os.path.join(_os.path.dirname(_os.path.dirname(_os.path.abspath(__file__))), 'data', 'absent_forms.json')) as _f:
    REVIEWED_ABSENT = {k for k in _json.load(_f) if not k.startswith('_')}


class Unresolved(Exception):
    def __init__(self, store, key, why):
        self.store = store
        self.key = key
        self.why = why
        super().__init__(f'{store}[{key!r}]: {why}')


def edit_distance(a, b):
    prev = list(range(len(b) + 1))
    for i, ca in enumerate(a, 1):
        cur = [i]
        for j, cb in enumerate(b, 1):
            cur.append(min(prev[j] + 1, cur[j - 1] + 1, prev[j - 1] + (ca != cb)))
        prev = cur
    return prev[-1]


_SRC_CONSTS = {}


def source_constants(form):
    """numeric literals written in the form's module (inline limits of the
    2021/2022 if/elif chains, band edges, ...): candidates for boundary values"""
    import ast
    import inspect
    cls = type(form)
    if cls in _SRC_CONSTS:
        return _SRC_CONSTS[cls]
    out = set()
    try:
        tree = ast.parse(inspect.getsource(inspect.getmodule(cls)))
        for node in ast.walk(tree):
            if isinstance(node, ast.Constant) and isinstance(node.value, (int, float)) and not isinstance(node.value, bool):
                if 10 <= abs(node.value) <= 10 ** 8:
                    out.add(float(node.value))
    except Exception:
        pass
    if len(out) > 200:
        out = set()      # data tables (tax tables), not limits
    _SRC_CONSTS[cls] = sorted(out)
    return _SRC_CONSTS[cls]


def form_thresholds(form):
    out = set(source_constants(form))
    for v in getattr(form, '_thresholds', {}).values():
        vals = v.values() if isinstance(v, dict) else [v]
        for x in vals:
            if isinstance(x, (int, float)) and not isinstance(x, bool):
                out.add(float(x))
    return sorted(out)


GENERIC_AMOUNTS = [0.0, 0.0, 0.0, 0.01, 1.0, 100.0, 1500.0, 1500.01, 3000.0, 10000.0, 10000.01,
                   50000.0, 100000.0, 200000.0, 200000.01, 250000.0, 1e6, 1000000.01, 1e7]


def amount_strategy(form):
    near = []
    for t in form_thresholds(form):
        near += [t, t + 0.01, t - 0.01, t + 1, t * 2]
    pools = [st.sampled_from(GENERIC_AMOUNTS),
             st.integers(0, 30000000).map(lambda c: c / 100.0)]
    if near:
        pools.append(st.sampled_from(near))
    return st.one_of(*pools)


def enum_members(e):
    return list(e.__members__.values())


def input_strategy(i, form_ctx):
    k = catalog.input_kind(i)
    if k == 'bool':
        return st.booleans()
    if k == 'int':
        return st.one_of(st.integers(0, 4), st.integers(0, 15))
    if k == 'float':
        return amount_strategy(form_ctx)
    if k == 'enum':
        ms = enum_members(i.enum)
        return st.sampled_from(ms + [None]) if i.allow_empty else st.sampled_from(ms)
    if k == 'ssn':
        return st.sampled_from(['123456789', '000000000'])
    if k == 'regex':
        return st.sampled_from(['021000021', '12345', 'abc-123'])
    return st.sampled_from(['', 'x', 'Jane Q. Public', '2023-01-05', '12-31-2023'])


def line_strategy(l, form_ctx):
    k = catalog.line_kind(l)
    if k == 'bool':
        return st.booleans()
    if k == 'int':
        return st.integers(0, 15)
    if k == 'float':
        places = l._places
        base = amount_strategy(form_ctx)
        signed = st.one_of(base, base, base, base.map(lambda x: -x))
        return signed.map(lambda x: round(x, places))
    if k == 'enum':
        return st.sampled_from(enum_members(l.enum()) + [None])
    return st.sampled_from(['', 'x', 'Jane Q. Public', '123456789'])


def ser(v):
    if v is None or isinstance(v, (bool, int, float, str)):
        return v
    return {'enum': v.name}


def deser(v, spec):
    if isinstance(v, dict) and 'enum' in v:
        e = spec.enum if hasattr(spec, 'allow_empty') else spec.enum()
        return e[v['enum']]
    return v


class MockStore(Mapping):
    """kind is 'i' (inputs) or 'v' (line values)"""

    def __init__(self, kind, cat, owner_form, draw, log, recorded=None, deliberate_absent=None):
        self.kind = kind
        self.cat = cat
        self.owner = owner_form
        self.draw = draw
        self.log = log              # list of (kind, key, serialised value)
        self.memo = {}
        self.recorded = recorded    # dict key -> serialised value (replay)
        self.deliberate_absent = deliberate_absent if deliberate_absent is not None else set()

    def _resolve(self, key):
        if key.count('.') != 1:
            raise Unresolved(self.kind, key, 'name is not of the shape form[:instance].name')
        fname, base = key.split('.')
        try:
            fbase, inst = hform.name_and_instance(fname)
        except RuntimeError:
            raise Unresolved(self.kind, key, 'malformed form name')
        if fbase not in self.cat.cmap:
            near = [n for n in self.cat.cmap if edit_distance(n, fbase) <= 2]
            if near and fbase not in REVIEWED_ABSENT:
                raise Unresolved(self.kind, key, f'form {fbase!r} is not in the {self.cat.year} catalogue (near-miss of {near})')
            self.deliberate_absent.add(fbase)
            raise AbsentForm(fbase)
        form = self.cat.ensure(fname)
        if form is None:
            raise Unresolved(self.kind, key, f'instance {inst!r} is not an allowed instance of form {fbase!r}')
        table = self.cat.inputs if self.kind == 'i' else self.cat.lines
        spec = table.get(key)
        if spec is None:
            what = 'input' if self.kind == 'i' else 'line'
            raise Unresolved(self.kind, key, f'form {fname!r} of {self.cat.year} declares no {what} named {base!r}')
        return spec

    def __getitem__(self, key):
        if key in self.memo:
            return self.memo[key]
        spec = self._resolve(key)
        tag = f'{self.kind}:{key}'
        if self.recorded is not None and (tag in self.recorded or self.draw is None):
            if tag not in self.recorded:
                raise ReplayMiss(tag)
            val = deser(self.recorded[tag], spec)
        else:
            strat = input_strategy(spec, self.owner) if self.kind == 'i' else line_strategy(spec, self.owner)
            val = self.draw(strat)
        self.memo[key] = val
        self.log.append((self.kind, key, ser(val)))
        return val

    def __iter__(self):
        return iter(self.memo)

    def __len__(self):
        return len(self.memo)


class AbsentForm(Exception):
    """read of a form that is deliberately not catalogued (e.g. 1040_s2)"""
    def __init__(self, form_name):
        self.form_name = form_name
        super().__init__(form_name)


class ReplayMiss(Exception):
    pass
