"""Shrinking of found cases by delta debugging over the replayable artefact
(INI keys of a return, structure of a generated program). The predicate is
"replaying the reduced case through the check's own replay() still lands in
the same bucket", so a shrunk case is a plain regression input that bypasses
Hypothesis. Bounded by a replay budget (never wall clock)."""
import copy

from hx.run import Ctx

INPUT_PATHS = [('variant', 'inputs'), ('scenario', 'inputs'), ('base', 'inputs'), ('inputs',), ('session', 'initial')]


def _get(case, path):
    cur = case
    for p in path:
        if not isinstance(cur, dict) or p not in cur:
            return None
        cur = cur[p]
    return cur


def _set(case, path, value):
    cur = case
    for p in path[:-1]:
        cur = cur[p]
    cur[path[-1]] = value


class Shrinker(object):
    def __init__(self, mod, pid, bucket, budget=120):
        self.mod = mod
        self.pid = pid
        self.bucket = bucket
        self.budget = budget
        self.replays = 0

    def still_fails(self, case):
        if self.replays >= self.budget:
            return False
        self.replays += 1
        ctx = Ctx(self.pid)
        try:
            self.mod.replay(ctx, copy.deepcopy(case))
        except BaseException as e:
            if type(e).__module__.startswith('hypothesis') or isinstance(e, (KeyboardInterrupt, SystemExit)):
                raise
            return False
        return self.bucket in ctx.buckets

    def ddmin_keys(self, case, path):
        d = _get(case, path)
        if not isinstance(d, dict) or len(d) < 2:
            return case
        keys = sorted(d)
        n = 2
        while len(keys) >= 2 and self.replays < self.budget:
            chunk = max(1, len(keys) // n)
            reduced = False
            for start in range(0, len(keys), chunk):
                drop = set(keys[start:start + chunk])
                trial = copy.deepcopy(case)
                _set(trial, path, {k: v for k, v in d.items() if k not in drop})
                if self.still_fails(trial):
                    case = trial
                    d = _get(case, path)
                    keys = sorted(d)
                    n = max(n - 1, 2)
                    reduced = True
                    break
            if not reduced:
                if chunk == 1:
                    break
                n = min(len(keys), n * 2)
        return case

    def shrink_program(self, case):
        prog = case.get('program')
        if not isinstance(prog, dict):
            return case

        def attempt(mutator):
            nonlocal case
            trial = copy.deepcopy(case)
            try:
                if mutator(trial['program']) is False:
                    return False
            except Exception:
                return False
            if self.still_fails(trial):
                case = trial
                return True
            return False

        # drop whole forms that are not the first requested one
        for idx in range(len(prog['forms']) - 1, 0, -1):
            name = prog['forms'][idx]['name']
            attempt(lambda p, name=name: (p.__setitem__('forms', [f for f in p['forms'] if f['name'] != name]),
                                          p.__setitem__('request', [r for r in p['request'] if r.split(':')[0] != name] or p['request'][:1]),
                                          p.__setitem__('file', {k: v for k, v in p['file'].items() if k.split('.')[0].split(':')[0] != name}))[0])
        # drop lines, then simplify expressions
        for fi in range(len(case['program']['forms'])):
            li = len(case['program']['forms'][fi]['lines']) - 1
            while li >= 0:
                if len(case['program']['forms'][fi]['lines']) > 1:
                    attempt(lambda p, fi=fi, li=li: p['forms'][fi]['lines'].pop(li))
                li -= 1
            for li in range(len(case['program']['forms'][fi]['lines'])):
                expr = case['program']['forms'][fi]['lines'][li]['expr']
                if expr[0] in ('if', 'add'):
                    for sub in expr[1:]:
                        if isinstance(sub, list) and attempt(lambda p, fi=fi, li=li, sub=sub: p['forms'][fi]['lines'][li].__setitem__('expr', sub)):
                            break
        case = self.ddmin_keys(case, ('program', 'file'))
        if case['program']['prompt'].get('answers'):
            case = self.ddmin_keys(case, ('program', 'prompt', 'answers'))
        return case

    def run(self, case):
        start = copy.deepcopy(case)
        if not self.still_fails(start):
            return case, {'shrunk': False, 'reason': 'the recorded case does not reproduce through replay()'}
        case = self.shrink_program(start)
        for path in INPUT_PATHS:
            case = self.ddmin_keys(case, path)
        return case, {'shrunk': True, 'replays': self.replays}


def shrink(mod, pid, bucket, case, budget=120):
    return Shrinker(mod, pid, bucket, budget).run(case)
