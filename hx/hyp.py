"""Hypothesis glue: every random choice is a Hypothesis draw, seeded from
VERIF_SEED, no database, no deadline, collect mode (bodies never raise for a
property violation; they record it in the Ctx and the search goes on)."""
import multiprocessing
import os

import hypothesis
from hypothesis import HealthCheck, Phase, given, settings, strategies as st


class CaseTimeout(BaseException):
    """harness safety net, never a verdict: one generated case ran longer than CASE_LIMIT_S of wall clock"""


CASE_LIMIT_S = int(os.environ.get('HXV_CASE_LIMIT_S', '900'))
TIMEOUTS = []


def _guarded(body, arg):
    """run one generated case; a case that exceeds the wall-clock safety net is abandoned and counted as
    inconclusive (normal cases take milliseconds to a minute) so that a check always terminates"""
    import signal
    import threading
    if threading.current_thread() is not threading.main_thread():
        return body(arg)

    def on_alarm(signum, frame):
        raise CaseTimeout()
    old = signal.signal(signal.SIGALRM, on_alarm)
    signal.setitimer(signal.ITIMER_REAL, CASE_LIMIT_S)
    try:
        return body(arg)
    except CaseTimeout:
        TIMEOUTS.append(1)
    finally:
        signal.setitimer(signal.ITIMER_REAL, 0)
        signal.signal(signal.SIGALRM, old)


def base_settings(n, shrink=False, **kw):
    phases = [Phase.generate] if not shrink else [Phase.generate, Phase.shrink]
    return settings(max_examples=n, deadline=None, database=None,
                    derandomize=False, report_multiple_bugs=False,
                    suppress_health_check=list(HealthCheck),
                    phases=phases, **kw)


def run_given(strategy, body, n, seed):
    """Run `body(value)` on n generated values of `strategy`."""
    @hypothesis.seed(seed)
    @base_settings(n)
    @given(strategy)
    def test(x):
        _guarded(body, x)
    test()


def run_data(body, n, seed):
    """Run `body(data)` with interactive draws."""
    @hypothesis.seed(seed)
    @base_settings(n)
    @given(st.data())
    def test(data):
        _guarded(body, data)
    test()


def find_minimal(strategy, predicate, seed, n=2000):
    """Shrink: smallest generated value satisfying predicate (or None)."""
    from hypothesis.errors import NoSuchExample
    try:
        return hypothesis.find(strategy, predicate,
                               settings=settings(max_examples=n, deadline=None, database=None,
                                                 suppress_health_check=list(HealthCheck)),
                               random=__import__('random').Random(seed))
    except NoSuchExample:
        return None


def _worker(args):
    fn, pid, tier, seed, level, shard, payload = args
    from hx.run import Ctx
    ctx = Ctx(pid, tier=tier, seed=seed, level=level, shard=shard)
    del TIMEOUTS[:]
    fn(ctx, shard, payload)
    if TIMEOUTS:
        ctx.count('inconclusive:case_abandoned_by_wall_clock_safety_net', len(TIMEOUTS))
    return ctx.export()


def pmap(ctx, fn, payloads, procs=None):
    """Run fn(subctx, shard_index, payload) for each payload in worker
    processes (fork) and merge the sub-contexts into ctx. fn must be a
    module-level function."""
    procs = procs or min(16, os.cpu_count() or 1, max(1, len(payloads)))
    jobs = [(fn, ctx.pid, ctx.tier, ctx.seed, ctx.level, k, p) for k, p in enumerate(payloads)]
    if procs <= 1 or len(jobs) <= 1:
        for j in jobs:
            ctx.merge(_worker(j))
        return
    mp = multiprocessing.get_context('fork')
    with mp.Pool(procs) as pool:
        for d in pool.imap_unordered(_worker, jobs):
            ctx.merge(d)
