"""Runner shared by all checks: collect-mode violations bucketed by root cause,
known-findings handling, replay files and evidence output.

A check module exposes
    PROPERTY = 'C07'
    LEVEL    = 'exploration'
    def run(ctx): ...            # explore; call ctx.violation()/ctx.case()/...
    def replay(ctx, case): ...   # re-execute one saved case (bypasses Hypothesis)
"""
import hashlib
import json
import os
import sys
import time
import traceback

VERIF = os.path.dirname(os.path.dirname(os.path.abspath(__file__)))
KNOWN_FILE = os.path.join(VERIF, 'known_findings.json')


def jdump(obj):
    return json.dumps(obj, sort_keys=True, default=repr)


def h(obj):
    return hashlib.sha1(jdump(obj).encode()).hexdigest()[:16]


def safe_name(s):
    return ''.join(c if c.isalnum() or c in '-_.' else '_' for c in s)[:120]


class Ctx(object):
    """Accumulates what one run explored. Picklable parts are merged across
    worker processes with export()/merge()."""

    MAX_SAMPLES = 8

    def __init__(self, pid, tier='quick', seed=1, level='exploration', shard=0):
        self.pid = pid
        self.tier = tier
        self.seed = seed
        self.level = level
        self.shard = shard
        self.t0 = time.time()
        self.evaluations = 0
        self.nontrivial = set()       # hashes of distinct non-trivial cases
        self.nontrivial_extra = 0     # distinct by construction (disjoint enumerations), counted not hashed
        self.counters = {}            # free-form class distribution
        self.samples = []
        self.buckets = {}             # bucket -> {'what':..., 'case':..., 'n':...}
        self.lists = {}               # name -> sorted unique list (uncovered items ...)
        self.rule = ''
        self.exhaustive = None
        self.assumptions = []
        self.extra = {}
        self.inconclusive = []

    # -- accounting -------------------------------------------------------
    def case(self, n=1):
        self.evaluations += n

    def nt(self, key):
        """register a distinct non-trivial case (key is hashed)"""
        self.nontrivial.add(key if isinstance(key, str) and len(key) <= 16 else h(key))

    def count(self, name, n=1):
        self.counters[name] = self.counters.get(name, 0) + n

    def sample(self, obj, force=False):
        if len(self.samples) < self.MAX_SAMPLES or force:
            self.samples.append(obj)

    def note(self, listname, item):
        self.lists.setdefault(listname, set()).add(item if isinstance(item, str) else jdump(item))

    def violation(self, bucket, what, case):
        """record a violation under a root-cause bucket; keeps the smallest
        case seen for each bucket and keeps exploring"""
        b = self.buckets.get(bucket)
        size = len(jdump(case))
        if b is None:
            self.buckets[bucket] = {'what': what, 'case': case, 'n': 1, 'size': size}
        else:
            b['n'] += 1
            if size < b['size']:
                b.update(what=what, case=case, size=size)

    # -- shards -----------------------------------------------------------
    def export(self):
        return {
            'evaluations': self.evaluations,
            'nontrivial': sorted(self.nontrivial),
            'nontrivial_extra': self.nontrivial_extra,
            'counters': self.counters,
            'samples': self.samples,
            'buckets': self.buckets,
            'lists': {k: sorted(v) for k, v in self.lists.items()},
            'extra': self.extra,
            'inconclusive': self.inconclusive,
        }

    def merge(self, d):
        self.evaluations += d['evaluations']
        self.nontrivial.update(d['nontrivial'])
        self.nontrivial_extra += d.get('nontrivial_extra', 0)
        for k, v in d['counters'].items():
            self.count(k, v)
        for s in d['samples']:
            self.sample(s)
        for bucket, b in d['buckets'].items():
            mine = self.buckets.get(bucket)
            if mine is None:
                self.buckets[bucket] = dict(b)
            else:
                mine['n'] += b['n']
                if b['size'] < mine['size']:
                    mine.update(what=b['what'], case=b['case'], size=b['size'])
        for k, v in d['lists'].items():
            self.lists.setdefault(k, set()).update(v)
        for k, v in d.get('extra', {}).items():
            if isinstance(v, (int, float)) and isinstance(self.extra.get(k, 0), (int, float)):
                self.extra[k] = self.extra.get(k, 0) + v
            else:
                self.extra.setdefault(k, v)
        self.inconclusive.extend(d.get('inconclusive', []))


def load_known():
    if not os.path.exists(KNOWN_FILE):
        return []
    with open(KNOWN_FILE) as f:
        return json.load(f)['findings']


def finish(ctx, mod):
    """Write replays + evidence, print the verdict lines, return exit code."""
    known = {}
    for k in load_known():
        if k['property'] == ctx.pid and k.get('status') == 'known':
            known[k['bucket']] = k
    out_base = os.environ.get('HXV_OUT_DIR') or VERIF     # scratch evaluations of mutated trees write elsewhere
    rdir = os.path.join(out_base, 'replays', ctx.pid)
    new = []
    seen_known = []
    for bucket in sorted(ctx.buckets):
        b = ctx.buckets[bucket]
        if bucket in known:
            seen_known.append(bucket)
            print(f'KNOWN-FINDING: property={ctx.pid} {known[bucket]["what"]} [bucket {bucket}, {b["n"]} case(s) this run]')
            continue
        os.makedirs(rdir, exist_ok=True)
        path = os.path.join(rdir, safe_name(bucket) + '.json')
        info = {'shrunk': False, 'reason': 'shrink budget spent on earlier buckets'}
        case = b['case']
        if hasattr(mod, 'replay') and len(new) < 4 and os.environ.get('HXV_NO_SHRINK') != '1':
            try:
                from hx import shrink
                # JSON round trip first: the shrunk case must be what a replay file can hold
                case, info = shrink.shrink(mod, ctx.pid, bucket, json.loads(json.dumps(case, default=repr)),
                                           budget=60 if ctx.tier == 'quick' else 250)
            except Exception as e:      # shrinking is best effort; the unshrunk case is still a valid replay
                info = {'shrunk': False, 'reason': 'shrinker error: ' + repr(e)}
                case = b['case']
        with open(path, 'w') as f:
            json.dump({'property': ctx.pid, 'bucket': bucket, 'what': b['what'],
                       'case': case, 'seed': ctx.seed, 'tier': ctx.tier, 'shrink': info},
                      f, indent=1, sort_keys=True, default=repr)
        new.append((bucket, path, b))
    # known findings that the check knows about but did not re-observe this
    # run are still announced (they are properties of the tree, not the run)
    for bucket, k in sorted(known.items()):
        if bucket not in seen_known:
            print(f'KNOWN-FINDING: property={ctx.pid} {k["what"]} [bucket {bucket}, not re-observed this run]')

    wall = time.time() - ctx.t0
    cov = {
        'evaluations': int(ctx.evaluations),
        'distinct_nontrivial': len(ctx.nontrivial) + ctx.nontrivial_extra,
        'rule': ctx.rule or getattr(mod, 'RULE', ''),
        'samples': ctx.samples[:ctx.MAX_SAMPLES] or ['(no sample recorded)'],
        'classes': dict(sorted(ctx.counters.items())),
    }
    if ctx.exhaustive is not None:
        cov['exhaustive'] = bool(ctx.exhaustive)
    for k, v in ctx.lists.items():
        items = sorted(v)
        cov[k] = items[:400]
        cov[k + '_count'] = len(items)
    cov.update(ctx.extra)
    cov['known_findings_observed'] = seen_known
    cov['new_violation_buckets'] = [b for b, _, _ in new]
    if ctx.inconclusive:
        cov['inconclusive'] = ctx.inconclusive[:50]
    ev = {
        'property_id': ctx.pid,
        'tier': ctx.tier,
        'seed': int(ctx.seed),
        'level': ctx.level,
        'coverage': cov,
        'assumptions': list(ctx.assumptions) or list(getattr(mod, 'ASSUMPTIONS', [])),
        'wall_s': round(wall, 2),
        'violations': len(new),
    }
    os.makedirs(os.path.join(out_base, 'evidence'), exist_ok=True)
    with open(os.path.join(out_base, 'evidence', ctx.pid + '.json'), 'w') as f:
        json.dump(ev, f, indent=1, sort_keys=True, default=repr)
        f.write('\n')

    for bucket, path, b in new:
        print(f'  violation bucket {bucket}: {b["what"]} ({b["n"]} case(s))')
        print(f'VIOLATION property={ctx.pid} replay={os.path.relpath(path, VERIF)}')
    print(f'{ctx.pid} {ctx.tier} seed={ctx.seed}: evaluations={ctx.evaluations} '
          f'distinct_nontrivial={len(ctx.nontrivial) + ctx.nontrivial_extra} violations={len(new)} '
          f'known={len(seen_known)} wall={wall:.1f}s')
    return 1 if new else 0


def replay_regressions(ctx, mod):
    """seconds-long replay tier: every saved case of a defect that was found
    and repaired (regress/<id>/*.json) is re-executed without Hypothesis; if a
    defect returns it is reported under its bucket like any new violation"""
    d = os.path.join(VERIF, 'regress', ctx.pid)
    if not os.path.isdir(d) or not hasattr(mod, 'replay'):
        return
    n = 0
    for fn in sorted(os.listdir(d)):
        if fn.endswith('.json'):
            with open(os.path.join(d, fn)) as f:
                rec = json.load(f)
            mod.replay(ctx, rec['case'])
            n += 1
    ctx.extra['regression_replays'] = n


def main(mod, argv=None):
    import argparse
    ap = argparse.ArgumentParser()
    ap.add_argument('--tier', default=os.environ.get('VERIF_TIER', 'quick'),
                    choices=['quick', 'thorough'])
    ap.add_argument('--replay', default=None)
    ap.add_argument('--seed', type=int, default=None)
    args = ap.parse_args(argv)
    seed = args.seed if args.seed is not None else int(os.environ.get('VERIF_SEED', '1') or 1)
    ctx = Ctx(mod.PROPERTY, tier=args.tier, seed=seed, level=getattr(mod, 'LEVEL', 'exploration'))
    try:
        if args.replay:
            with open(args.replay) as f:
                rec = json.load(f)
            ctx.replaying = True
            mod.replay(ctx, rec['case'])
            if ctx.buckets:
                for bucket, b in ctx.buckets.items():
                    print(f'  reproduced bucket {bucket}: {b["what"]}')
                print(f'VIOLATION property={mod.PROPERTY} replay={args.replay}')
                return 1
            print(f'{mod.PROPERTY}: replay {args.replay} no longer violates')
            return 0
        replay_regressions(ctx, mod)
        mod.run(ctx)
        return finish(ctx, mod)
    except SystemExit:
        raise
    except BaseException:
        traceback.print_exc()
        print(f'HARNESS-ERROR property={mod.PROPERTY} (exit 2; not a verdict)')
        return 2
