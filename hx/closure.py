"""Demand-closure evaluator: an oracle for what a finished solve must contain,
computed from the *final* stores with none of the solver's bookkeeping.

Start from the required lines of the requested forms; evaluate each demanded
line's own definition (the real Field.value) against the final input and value
stores; every line it reads joins the demand set together with the required
lines of its form; iterate to a fixed point."""
from collections.abc import Mapping

import habutax.fields as hf
import habutax.form as hform
import habutax.inputs as hinputs
import habutax.values as hvalues


class _Log(Mapping):
    def __init__(self, inner, kind, log):
        self.inner = inner
        self.kind = kind
        self.log = log

    def __getitem__(self, key):
        self.log.append((self.kind, key))
        return self.inner[key]

    def __iter__(self):
        return iter(self.inner)

    def __len__(self):
        return len(self.inner)


def eval_line(field, istore, vstore):
    """returns (outcome, payload, reads); reads = [(kind, qualified key)]"""
    reads = []
    form = field.form()
    ia = hform.FormAccessor(_Log(istore, 'i', reads), form)
    va = hform.FormAccessor(_Log(vstore, 'v', reads), form)
    try:
        val = field.value(ia, va)
        return 'value', val, reads
    except hvalues.UnmetDependency as e:
        return 'unmet', e.dependency, reads
    except hinputs.MissingInput as e:
        return 'missing', e.input_name, reads
    except hinputs.MissingInputSpecification as e:
        return 'nospec', e.input_name, reads
    except hf.FieldNotImplemented:
        return 'ni', None, reads
    except Exception as e:
        return 'exc', e, reads


class Closure(object):
    pass


def closure(solver, requested):
    s = solver
    c = Closure()
    c.values = {}
    c.ni = set()
    c.missing = {}
    c.blocked = {}
    c.anomalies = []
    c.reads = {}
    c.outcome = {}
    demanded = []
    seen = set()

    def demand(name):
        if name not in seen:
            seen.add(name)
            demanded.append(name)

    def demand_form(full_form):
        f = s.forms.get(full_form)
        if f is None:
            return False
        for fld in f.required_fields():
            demand(fld.name())
        return True

    for full in requested:
        if not demand_form(full):
            c.anomalies.append(('requested form not instantiated', full))
    k = 0
    while k < len(demanded):
        name = demanded[k]
        k += 1
        field = s._field_map.get(name)
        if field is None:
            c.anomalies.append(('demanded line unknown to solver', name))
            continue
        out, payload, reads = eval_line(field, s._i, s._v)
        c.reads[name] = reads
        c.outcome[name] = out
        for kind, key in reads:
            if kind == 'v':
                fform = key.split('.')[0]
                if key in s._field_map:
                    demand(key)
                    demand_form(fform)
                else:
                    c.anomalies.append(('line read but unknown to solver', key))
        if out == 'value':
            c.values[name] = payload
        elif out == 'ni':
            c.ni.add(name)
        elif out == 'missing':
            c.missing.setdefault(payload, set()).add(name)
        elif out == 'unmet':
            c.blocked.setdefault(payload, set()).add(name)
        elif out == 'nospec':
            c.anomalies.append(('input specification never loaded', payload))
        else:
            c.anomalies.append(('definition raised on final stores', f'{name}: {payload!r}'))
    c.demanded = demanded
    c.forms = {n.split('.')[0] for n in demanded} | {f for f in requested if f in s.forms}
    c.verdict = not (c.ni or c.missing or c.blocked or c.anomalies)
    return c


def same_value(a, b):
    if type(a) is not type(b):
        return False
    if isinstance(a, float) and a != a and b != b:
        return True
    return a == b


def compare(r, requested):
    """list of (property, bucket-suffix, message) discrepancies between a
    finished, non-aborted solve `r` (hx.solve.Result) and its demand closure"""
    out = []
    if r.exc is not None:
        return out, None
    c = closure(r.solver, requested)
    for kind, what in c.anomalies:
        out.append(('C04' if 'unknown' in kind or 'instantiated' in kind else 'C03', 'anomaly:' + kind.replace(' ', '_'), f'{kind}: {what}'))
    # C01 -- verdict and diagnostics
    if bool(r.verdict) != bool(c.verdict):
        out.append(('C01', 'verdict', f'solve() returned {r.verdict} but the demand closure says solved={c.verdict} '
                    f'(not implemented: {sorted(c.ni)[:4]}, missing inputs: {sorted(c.missing)[:4]}, blocked behind: {sorted(c.blocked)[:4]})'))
    if set(r.unimplemented) != c.ni:
        out.append(('C01', 'unimplemented-set', f'unimplemented_fields()={sorted(r.unimplemented)} but lines ending not-implemented are {sorted(c.ni)}'))
    if {k: sorted(set(v)) for k, v in r.unmet_inputs.items() if v} != {k: sorted(v) for k, v in c.missing.items()}:
        out.append(('C01', 'missing-inputs', f'unmet_input_dependencies()={r.unmet_inputs} but closure finds {dict((k, sorted(v)) for k, v in c.missing.items())}'))
    if {k: sorted(set(v)) for k, v in r.unmet_fields.items() if v} != {k: sorted(v) for k, v in c.blocked.items()}:
        out.append(('C01', 'blocked-lines', f'unmet_field_dependencies()={r.unmet_fields} but closure finds {dict((k, sorted(v)) for k, v in c.blocked.items())}'))
    # C06 -- a wait on a line that did get its value was never released
    for dep, waiters in sorted(r.unmet_fields.items()):
        if waiters and dep in r.values:
            out.append(('C06', 'waiter-never-released', f'{dep} holds the value {r.values[dep]!r}, yet {sorted(set(waiters))[:4]} are still reported as waiting for it'))
            break
    for dep, waiters in sorted(r.unmet_inputs.items()):
        try:
            supplied = waiters and r.store.config.has_option(*dep.split('.', 1))
        except Exception:
            supplied = False
        if supplied and c.missing.get(dep) is None:
            out.append(('C06', 'waiter-never-released', f'input {dep} is supplied and valid on the final store, yet {sorted(set(waiters))[:4]} are still reported as waiting for it'))
            break
    # C04 -- a successful solution holds every required line of every participating form
    if r.verdict:
        for fname, f in sorted(r.solver.forms.items()):
            lost = [fl.name() for fl in f.required_fields() if fl.name() not in r.values]
            if lost:
                out.append(('C04', 'successful-solution-lacks-required-line', f'solve() returned True but required lines {lost[:4]} of {fname} have no value'))
                break
    # C04 -- key set and form set
    have, want = set(r.values), set(c.values)
    if have - want:
        out.append(('C04', 'undemanded', f'solution holds lines nothing demanded: {sorted(have - want)[:6]}'))
    if want - have:
        out.append(('C04', 'missing-line', f'demanded lines with a computable value are absent from the solution: {sorted(want - have)[:6]}'))
    if set(r.forms) != c.forms:
        out.append(('C04', 'forms', f'Solver.forms={sorted(r.forms)} but demanded forms are {sorted(c.forms)}'))
    if r.solution is not None:
        sol_keys = {f'{sec}.{k}' for sec, d in r.solution.items() for k in d}
        if sol_keys != have:
            out.append(('C04', 'solution-keys', f'solution() keys differ from the stored values: {sorted(sol_keys ^ have)[:6]}'))
    # C03 -- a stored value must be what its definition *returns*; a definition that ends not-implemented,
    # blocked or missing an input on the final stores has no value to store
    for name in sorted(have - want):
        oc = c.outcome.get(name)
        if oc in ('ni', 'unmet', 'missing', 'exc'):
            out.append(('C03', 'stored-without-value:' + name.split('.')[0].split(':')[0] + '.' + name.split('.')[1],
                        f'{name} is stored as {r.values[name]!r} but re-evaluating its definition on the final stores ends in {oc}'))
            break
    # C03 -- fixed point
    for name in sorted(have & want):
        if not same_value(r.values[name], c.values[name]):
            out.append(('C03', 'stale:' + name.split('.')[0].split(':')[0] + '.' + name.split('.')[1],
                        f'{name} is stored as {r.values[name]!r} but its definition yields {c.values[name]!r} on the final stores'))
            break
    return out, c
