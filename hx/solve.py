"""Drive the real habutax Solver with harness-side instrumentation (no source
hooks): traced attempts, recording stores, scripted prompts, and schedule
control by substituting habutax.solver.sort_keys / DependencyTracker."""
import configparser
import contextlib
import io

import habutax.fields as hf
import habutax.inputs as hinputs
import habutax.solver as hsolver
import habutax.values as hvalues


def config_from_dict(d):
    """{'section.key': text} -> ConfigParser (the same class InputStore uses)"""
    cp = configparser.ConfigParser()
    for full, text in d.items():
        section, key = full.split('.', 1)
        if not cp.has_section(section):
            cp.add_section(section)
        cp.set(section, key, text)
    return cp


def config_from_text(text):
    cp = configparser.ConfigParser()
    cp.read_file(io.StringIO(text))
    return cp


def solution_from_text(text):
    """a solution file is literal text (no interpolation)"""
    cp = configparser.ConfigParser(interpolation=None)
    cp.read_file(io.StringIO(text))
    return cp


def config_to_dict(cp):
    out = {}
    for section in cp.sections():
        for key in cp[section]:
            out[f'{section}.{key}'] = cp.get(section, key, raw=True)
    return out


def config_to_text(cp):
    buf = io.StringIO()
    cp.write(buf)
    return buf.getvalue()


class RecInputStore(hinputs.InputStore):
    """logs every read: (current line, key, outcome)"""
    def __init__(self, cp, trace):
        super().__init__(cp)
        self.trace = trace

    def __getitem__(self, key):
        try:
            val = super().__getitem__(key)
        except hinputs.MissingInput:
            self.trace.read('i', key, 'missing')
            raise
        except hinputs.MissingInputSpecification:
            self.trace.read('i', key, 'nospec')
            raise
        except hinputs.InvalidInput:
            self.trace.read('i', key, 'invalid')
            raise
        self.trace.read('i', key, 'ok', val)
        return val


class RecValueStore(hvalues.ValueStore):
    def __init__(self, trace):
        self.trace = trace
        super().__init__()

    def __getitem__(self, key):
        try:
            val = super().__getitem__(key)
        except hvalues.UnmetDependency:
            self.trace.read('v', key, 'unmet')
            raise
        self.trace.read('v', key, 'ok', val)
        return val


class Trace(object):
    def __init__(self):
        self.attempts = []        # [line name, [reads], ending]
        self.stack = []
        self.prompts = []         # (input name, [needed_by names], supplied, text)

    def begin(self, name):
        rec = [name, [], None]
        self.attempts.append(rec)
        self.stack.append(rec)

    def end(self, ending):
        rec = self.stack.pop()
        if rec[2] is None:
            rec[2] = ending

    def read(self, kind, key, outcome, val=None):
        if self.stack:
            self.stack[-1][1].append((kind, key, outcome, val))

    def attempt_counts(self):
        out = {}
        for name, _, _ in self.attempts:
            out[name] = out.get(name, 0) + 1
        return out

    def order(self):
        return [a[0] for a in self.attempts]


class TracedSolver(hsolver.Solver):
    def __init__(self, input_store, form_list, prompt=None, trace=None):
        super().__init__(input_store, form_list, prompt=prompt)
        self.trace = trace
        self._v = RecValueStore(trace)

    def _attempt_field(self, field):
        # deterministic guard: no solve of these sizes attempts lines 30000 times (a 1040 + N.C. return under a random schedule was measured at under 1200); a solver that keeps re-queueing
        # a line inside its inner loop (where the tracker is never polled) would otherwise never come back
        self._hx_attempts = getattr(self, '_hx_attempts', 0) + 1
        if len(self._unattempted_fields) > 20000:
            # the queue of lines waiting for a first attempt can never hold more entries than the catalogue has lines
            # (a few thousand); a queue that keeps growing makes every re-sort slower and the solve effectively endless
            raise LoopBudgetExceeded(f'the queue of unattempted lines holds {len(self._unattempted_fields)} entries')
        if self._hx_attempts > 30000:
            raise LoopBudgetExceeded('more than 30000 line attempts in one solve')
        self.trace.begin(field.name())
        before = len(self._unimplemented_fields)
        try:
            out = super()._attempt_field(field)
        except BaseException as e:
            self.trace.end('raised:' + type(e).__name__)
            raise
        if field.name() in self._v.values:
            self.trace.end('value')
        elif len(self._unimplemented_fields) > before:
            self.trace.end('not_implemented')
        else:
            self.trace.end('waiting')
        return out


class LoopBudgetExceeded(BaseException):
    """the solve loop polled its bookkeeping more often than any terminating solve can"""


class Schedule(object):
    """replaces the ordering points of habutax.solver for one solve. Ranks come
    from a PRNG seeded with a Hypothesis-drawn integer (one draw per case, so
    the case stays a pure function of the drawn seed and replays from it);
    `mode` 'reverse' / 'identity' give the two deterministic extremes."""
    def __init__(self, seed=0, mode='random'):
        import random
        self.seed = seed
        self.mode = mode
        self.rng = random.Random(seed)
        self.calls = 0
        self.polls = 0
        self.poll_limit = 200000

    def rank(self):
        self.calls += 1
        return self.rng.randrange(1 << 30)

    def describe(self):
        return {'seed': self.seed, 'mode': self.mode}

    @contextlib.contextmanager
    def installed(self):
        sched = self
        orig_keys = hsolver.sort_keys
        orig_tracker = hsolver.DependencyTracker

        def key(k):
            if sched.mode == 'identity':
                return orig_keys(k)
            if sched.mode == 'reverse':
                return _Rev(orig_keys(k))
            return sched.rank()

        class PermTracker(orig_tracker):
            def has_met(self):
                # deterministic guard against a solve loop that spins without
                # evaluating anything (step bound, never wall clock)
                sched.polls += 1
                if sched.polls > sched.poll_limit:
                    raise LoopBudgetExceeded(f'more than {sched.poll_limit} polls of the dependency bookkeeping')
                return super().has_met()

            def met_dependents(self):
                items = list(super().met_dependents())
                if sched.mode == 'reverse':
                    items.reverse()
                elif sched.mode == 'random':
                    items.sort(key=lambda _: sched.rank())
                for it in items:
                    yield it

        hsolver.sort_keys = key
        hsolver.DependencyTracker = PermTracker
        try:
            yield
        finally:
            hsolver.sort_keys = orig_keys
            hsolver.DependencyTracker = orig_tracker


class _Rev(object):
    """inverts the natural order of a sort key"""
    def __init__(self, k):
        self.k = k

    def __lt__(self, other):
        return other.k < self.k

    def __eq__(self, other):
        return self.k == other.k


class Result(object):
    pass


def scripted_prompt(answer_fn, trace):
    """answer_fn(input_obj, needed_by) -> text or None (refuse)"""
    def prompt(missing, needed_by):
        if len(trace.prompts) >= 5000:
            # deterministic guard: no return has 5000 inputs; a solver that keeps asking would never come back
            raise LoopBudgetExceeded('the prompt was called more than 5000 times in one solve')
        text = answer_fn(missing, needed_by)
        nb = [f.name() for f in needed_by]
        if text is None:
            trace.prompts.append((missing.name(), nb, False, None))
            return (None, False)
        trace.prompts.append((missing.name(), nb, True, text))
        return (text, True)
    return prompt


def run(form_classes, requested, cp, answer_fn=None, schedule=None, want_solution=True):
    """one solve; never raises for solver exceptions (they are the result)"""
    r = Result()
    r.trace = Trace()
    r.store = RecInputStore(cp, r.trace)
    prompt = scripted_prompt(answer_fn, r.trace) if answer_fn is not None else None
    r.exc = None
    r.verdict = None
    r.solution = None
    r.solution_exc = None
    if schedule is None:
        schedule = Schedule(mode='identity')
    cm = schedule.installed()
    with cm:
        r.solver = TracedSolver(r.store, form_classes, prompt=prompt, trace=r.trace)
        try:
            r.verdict = r.solver.solve(list(requested))
        except BaseException as e:     # the abort *is* the observable result
            if isinstance(e, (KeyboardInterrupt, SystemExit)) or type(e).__module__.startswith('hypothesis') or type(e).__name__ == 'CaseTimeout':
                raise
            r.exc = e
    s = r.solver
    r.values = dict(s._v.values)
    r.forms = set(s.forms)
    if r.exc is None:
        r.unimplemented = list(s.unimplemented_fields())
        r.unmet_inputs = {k: list(v) for k, v in s.unmet_input_dependencies().items()}
        r.unmet_fields = {k: list(v) for k, v in s.unmet_field_dependencies().items()}
        if want_solution:
            try:
                sol = s.solution()
                r.solution = {sec: dict(sol[sec]) for sec in sol.sections()}
            except Exception as e:
                r.solution_exc = e
    return r


def canon_diag(d):
    """diagnostics as {dependency: sorted set of dependants}; the same waiter may be
    registered more than once, which says nothing about *what* is reported"""
    return {k: sorted(set(v)) for k, v in d.items() if v}
