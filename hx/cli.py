"""In-process driver for the habutax command-line functions with scripted
stdin, captured stdout, temp files, and a stand-in pdftk."""
import argparse
import builtins
import contextlib
import io
import os
import shutil
import sys
import tempfile

import habutax

HERE = os.path.dirname(os.path.dirname(os.path.abspath(__file__)))
TOOLS = os.path.join(HERE, 'tools')


class Script(object):
    """scripted replacement for input(): items are texts, or the markers
    Script.INT (KeyboardInterrupt) / Script.EOF (EOFError). Running past the
    end raises EOFError (like a closed stdin)."""
    INT = object()
    EOF = object()

    def __init__(self, items):
        self.items = list(items)
        self.pos = 0
        self.prompts = []

    def __call__(self, prompt=''):
        self.prompts.append(prompt)
        if self.pos >= len(self.items):
            self.pos += 1
            raise EOFError('end of scripted input')
        item = self.items[self.pos]
        self.pos += 1
        if item is Script.INT:
            raise KeyboardInterrupt()
        if item is Script.EOF:
            raise EOFError()
        return item


class FnScript(object):
    """input() replacement driven by a function(prompt_text, index) -> text | INT | EOF"""
    def __init__(self, fn):
        self.fn = fn
        self.prompts = []

    def __call__(self, prompt=''):
        idx = len(self.prompts)
        self.prompts.append(prompt)
        item = self.fn(prompt, idx)
        if item is Script.INT:
            raise KeyboardInterrupt()
        if item is Script.EOF:
            raise EOFError()
        return item


@contextlib.contextmanager
def scratch():
    base = '/dev/shm' if os.path.isdir('/dev/shm') else None
    d = tempfile.mkdtemp(prefix='hxv_', dir=base)
    try:
        yield d
    finally:
        shutil.rmtree(d, ignore_errors=True)


class Out(object):
    pass


def call(func, args, script=None):
    """run a habutax CLI function in-process; returns Out(stdout, exc)"""
    o = Out()
    o.exc = None
    buf = io.StringIO()
    orig_input = builtins.input
    if script is not None:
        builtins.input = script
    try:
        with contextlib.redirect_stdout(buf):
            try:
                func(args)
            except BaseException as e:
                if type(e).__module__.startswith('hypothesis') or type(e).__name__ == 'CaseTimeout':
                    raise
                o.exc = e
    finally:
        builtins.input = orig_input
    o.stdout = buf.getvalue()
    return o


def solve(dirpath, year, forms, input_text=None, prompt_missing=False, writeback=False,
          solution=True, script=None, input_name='in.ini'):
    """`habutax solve`; input_text None = file does not exist beforehand"""
    inp = os.path.join(dirpath, input_name)
    if input_text is not None:
        with open(inp, 'w') as f:
            f.write(input_text)
    sol = os.path.join(dirpath, 'solution.ini') if solution else None
    if sol and os.path.exists(sol):
        os.remove(sol)
    args = argparse.Namespace(input_file=inp, year=year, forms=list(forms), prompt_missing=prompt_missing,
                              writeback_input=writeback, solution=sol)
    o = call(habutax.solve, args, script=script)
    o.input_path = inp
    o.input_after = open(inp).read() if os.path.exists(inp) else None
    o.solution_path = sol
    o.solution_text = open(sol).read() if sol and os.path.exists(sol) else None
    return o


def main_argv(argv, script=None):
    """habutax.main() with sys.argv set"""
    o = Out()
    o.exc = None
    buf = io.StringIO()
    old = sys.argv
    sys.argv = ['habutax'] + list(argv)
    orig_input = builtins.input
    if script is not None:
        builtins.input = script
    try:
        with contextlib.redirect_stdout(buf), contextlib.redirect_stderr(io.StringIO()):
            try:
                habutax.main()
            except SystemExit as e:
                o.exit = e.code
            except BaseException as e:
                if type(e).__module__.startswith('hypothesis') or type(e).__name__ == 'CaseTimeout':
                    raise
                o.exc = e
    finally:
        sys.argv = old
        builtins.input = orig_input
    o.stdout = buf.getvalue()
    return o


@contextlib.contextmanager
def fake_pdftk(capture_dir):
    """put tools/pdftk first on PATH; it records argv and copies FDFs into capture_dir"""
    old_path = os.environ.get('PATH', '')
    old_cap = os.environ.get('HXV_PDFTK_CAPTURE')
    os.environ['PATH'] = TOOLS + os.pathsep + old_path
    os.environ['HXV_PDFTK_CAPTURE'] = capture_dir
    try:
        yield
    finally:
        os.environ['PATH'] = old_path
        if old_cap is None:
            os.environ.pop('HXV_PDFTK_CAPTURE', None)
        else:
            os.environ['HXV_PDFTK_CAPTURE'] = old_cap


def fill_pdfs(dirpath, solution_path, flatten=True):
    cap = os.path.join(dirpath, 'pdftk_capture')
    os.makedirs(cap, exist_ok=True)
    out_pdf = os.path.join(dirpath, 'out.pdf')
    args = argparse.Namespace(solution=solution_path, output=out_pdf, flatten=flatten)
    with fake_pdftk(cap):
        o = call(habutax.fill_pdfs, args)
    o.capture_dir = cap
    o.output = out_pdf
    return o
