"""Instruction grammar: turns the sentence printed for a line (XFA <speak> text
of the widget the line is mapped to, or a cited transcription in the same
wording) into an expression over line labels.

parse(text, label) -> Instr or None (unparsed). Unparsed is never a verdict.

Expression kinds:
  ('add', [labels])                      Add/Combine lines ...
  ('sub', a, b, floor)                   Subtract line a from line b  (= b - a); floor in {None, 'zero'}
  ('condsub', a, b)                      If line b is more than line a, subtract line a from line b (else blank)
  ('mul', a, ('const', x) | ('line', b)) Multiply line a by ...
  ('min', a, b) / ('max', a, b)          Enter the smaller/larger of line a or line b
  ('copy', form|None, a)                 Enter the amount from [form,] line a
  ('div1', a, b)                         Divide line a by line b, at most 1.000
carry: list of (form, label) the result must also appear on.
"""
import re

FORM_NAMES = [
    (r'Schedule 1', '1040_s1'), (r'Schedule 2', '1040_s2'), (r'Schedule 3', '1040_s3'),
    (r'Schedule A', '1040_sa'), (r'Sch\. A', '1040_sa'), (r'Schedule B', '1040_sb'), (r'Sch\. B', '1040_sb'),
    (r'Schedule 8812', '1040_s8812'), (r'Form 8995', '8995'), (r'Form 8889', '8889'), (r'Form 8606', '8606'),
    (r'Form 8959', '8959'), (r'Form D-400 Schedule S', 'nc_d-400_ss'), (r'Form D-400 Schedule A', 'nc_d-400_sa'),
    (r'Form D-400', 'nc_d-400'), (r'Form 1040', '1040'),
]
LAB = r'\d{1,2}[a-z]?'


class Instr(object):
    def __init__(self, expr, carry, text, notes=None, include=None):
        self.expr = expr
        self.carry = carry
        self.include = include or []
        self.text = text
        self.notes = notes or []

    def operands(self):
        e = self.expr
        if e is None:
            return []
        if e[0] in ('floor0', 'roundup', 'cap0'):
            e = e[1]
        k = e[0]
        if k == 'add':
            return list(e[1])
        if k in ('sub', 'condsub', 'min', 'max', 'div1'):
            return [e[1], e[2]]
        if k == 'mul':
            return [e[1]] + ([e[2][1]] if e[2][0] == 'line' else [])
        if k == 'copy':
            return [e[2]] if e[1] is None else []
        if k in ('tax', 'divstatus'):
            return [e[1]]
        return []

    def __repr__(self):
        return f'Instr({self.expr}, carry={self.carry})'


def normalise(text):
    t = ' '.join(text.split())
    t = t.replace('1040-S R', '1040-SR').replace('1040-N R', '1040-NR').replace('1040-S S', '1040-SS')
    t = re.sub(r'\bI I I\b', 'III', t)
    t = re.sub(r'\bI I\b', 'II', t)
    t = re.sub(r'\bLine(s?) (?=\d)', lambda m: 'line' + m.group(1) + ' ', t)
    t = t.replace('enter a zero', 'enter 0')
    t = t.replace('-0-', '0').replace('“', '"').replace('”', '"').replace('—', '-').replace('–', '-')
    return t


def body_after_label(text, label):
    """text following the first 'label.' occurrence"""
    m = re.search(r'(?:^|[\s.:])' + re.escape(label) + r'\.\s+', text)
    if not m:
        return None
    return text[m.end():]


def find_form(fragment):
    for pat, name in FORM_NAMES:
        if re.search(pat, fragment):
            return name
    return None


def expand_list(listtext, ordered_labels):
    """'1 through 4, 5a, 5b, and 7' -> labels; ranges expand over ordered_labels (the form's own order)"""
    s = listtext.replace(' and ', ', ').replace(',,', ',')
    parts = [p.strip() for p in s.split(',') if p.strip()]
    out = []
    for p in parts:
        m = re.match(rf'^({LAB}) through ({LAB})$', p)
        if m:
            a, b = m.group(1), m.group(2)
            if ordered_labels is None or a not in ordered_labels or b not in ordered_labels:
                return None
            ia, ib = ordered_labels.index(a), ordered_labels.index(b)
            if ib < ia:
                return None
            out.extend(ordered_labels[ia:ib + 1])
        elif re.match(rf'^{LAB}$', p):
            out.append(p)
        else:
            return None
    return out


IGNORABLE_TAIL = re.compile(
    r'^(?:\s*(?:Close parenthesis\.|This is (?:your|the)[^.]*\.|These are your[^.]*\.|This amount is taxed at 0%\.|Note:.*|Caution:.*|Attach [^.]*\.|'
    r'For details on how to pay[^.]*\.[^.]*\.?|See instructions\.?|\(see instructions\)\.?|Enter here and go to Part [IVX ]+\.|and go to Part [IVX ]+\.|'
    r'Number before the decimal\.|Enter the result as a decimal rounded to at least 3 places\.|Also include this amount[^.]*\.(?:[^.]*\.)?|'
    r'If more than zero, also include this amount on[^.]*\.(?:.*)?|If more than zero, you may be subject to an additional tax[^.]*\.|'
    r'If line \d+[a-z]? is over \$[\d,]+, you must complete Part [IVX ]+\.))*\s*$')

CARRY = re.compile(
    r'(?:Enter (?:the result |the total |this amount )?(?:here and )?on|Also,? enter this amount on|and on|here and on|Enter this amount on)\s+'
    r'(?P<form>(?:Schedule [0-9A-Z]+(?: \(Form 1040\))?|Form 1040)[^.;]*?),?\s+(?:Part [IVX]+,\s+)?line (?P<line>' + LAB + r')', re.I)

INCLUDE = re.compile(r'(?:If more than zero, )?also include this amount on (?:\d{4} )?(?P<form>Form 1040|Schedule [0-9A-Z]+)[^.;]*?,?\s+line (?P<line>' + LAB + r')', re.I)

UNRECOGNISED = re.compile(r'\b(If|Otherwise|But if|next multiple|unless|whichever|stop here)\b', re.I)


def parse(text, label, ordered_labels=None):
    """returns Instr (expr may be None when only a carry was recognised) or None"""
    if not text:
        return None
    t = normalise(text)
    body = body_after_label(t, label)
    if body is None:
        return None
    carry = []
    for m in CARRY.finditer(body):
        f = find_form(m.group('form'))
        if f:
            carry.append((f, m.group('line')))
    include = []
    for m in INCLUDE.finditer(body):
        f = find_form(m.group('form'))
        if f:
            include.append((f, m.group('line')))
    body_nocarry = CARRY.sub('', body)
    body_nocarry = re.sub(r'\s*(?:Enter the result|Enter the total)\s*\.?', ' ', body_nocarry)
    body_nocarry = re.sub(r'\s+\.', '.', body_nocarry)
    body_nocarry = re.sub(r'\.(?:\s*\.)+', '.', body_nocarry)
    expr = None
    rest = None

    def done(e, m, src=None):
        nonlocal expr, rest
        expr = e
        s = src if src is not None else body_nocarry
        rest = s[m.end():]

    b = body_nocarry
    # heading words before the verb ("Total other income. Add lines ...", "Income limitation. Multiply ...")
    lead = re.match(r'^(?!(?:Add|Combine|Subtract|Multiply|Enter|If line|Divide|Figure|Total amount)\b)(?:[A-Z][^.]*?\.\s+){1,3}?(?=(?:Add|Combine|Subtract|Multiply|Enter|If line|Divide|Figure|Total amount)\b)', b)
    if lead:
        b = b[lead.end():]

    m = re.match(rf'^(?:Add|Combine) lines (?P<l>(?:{LAB}|through|and|,|\s)+?)\.(?:\s|$)', b)
    if m:
        labels = expand_list(m.group('l').strip(), ordered_labels)
        if labels:
            done(('add', labels), m, b)
            fm = re.match(r'^\s*If zero or less, enter 0\.', rest)
            if fm:
                expr = ('floor0', expr)
                rest = rest[fm.end():]
            else:
                fm = re.match(r'^\s*If greater than zero, enter 0\.', rest)
                if fm:
                    expr = ('cap0', expr)
                    rest = rest[fm.end():]
    if expr is None:
        # payer statements: "Add the amounts in box 1 of all Forms W-2." /
        # "Add the amounts in boxes 1 and 3 of all Forms 1099-INT and box 12 of all Forms 1099-DIV."
        m = re.match(r'^Add the amounts in (?P<g>box(?:es)? [^.]*? of all Forms [^.]*?)\.(?:\s|$)', b)
        if m:
            groups = []
            ok = True
            for part in re.split(r',? and (?=box)', m.group('g')):
                pm = re.match(r'^box(?:es)? (?P<boxes>[0-9a-z_]+(?:(?:, | and |, and )[0-9a-z_]+)*) of all Forms (?P<forms>(?:W-2|1098|1099-[A-Z]+)(?:(?:, | and |, and )(?:W-2|1098|1099-[A-Z]+))*)$', part)
                if not pm:
                    ok = False
                    break
                boxes = [x for x in re.split(r', and |, | and ', pm.group('boxes')) if x]
                for fm in re.split(r', and |, | and ', pm.group('forms')):
                    groups.append((fm.lower(), ['box_' + x for x in boxes]))
            if ok and groups:
                done(('sumstmt', groups), m, b)
                cm = re.match(rf'^\s*Enter the smaller of that total or (?P<f>Form 1040)(?: or 1040-SR)?, line (?P<l>{LAB})\.', rest or '')
                if cm:
                    expr = ('capf', expr, find_form(cm.group('f')), cm.group('l'))
                    rest = rest[cm.end():]
    if expr is None:
        # template wording of Form 8959 / Form 1040 line 1a
        m = re.match(r'^(?:Total amount|[A-Z][A-Za-z ]+?) from Form(?:\(s\))? (?P<f>W-2), box (?P<n>\d+)\b(?P<tail>[^.]*\.)(?P<more> If you have more than one Form W-2, enter the total of the amounts from box (?P<n2>\d+)\.)?', b)
        if m and (m.group('n2') in (None, m.group('n'))) and re.match(r'^\s*(?:\(see instructions\))?\s*\.$', m.group('tail')):
            done(('sumstmt', [(m.group('f').lower(), ['box_' + m.group('n')])]), m, b)
    if expr is None:
        m = re.match(rf'^Add (?P<f1>Form 1040)(?: or 1040-SR)?, line (?P<a>{LAB}),? and (?P<f2>Form 1040)(?: or 1040-SR)?, line (?P<b>{LAB})\.', b)
        if m:
            done(('addf', find_form(m.group('f1')), [m.group('a'), m.group('b')]), m, b)
    if expr is None:
        m = re.match(rf'^Figure the tax on the amount on line (?P<a>{LAB})\.', b)
        if m:
            done(('tax', m.group('a')), m, b)
            rest = ''      # the sentences that follow say where to look the tax up
    if expr is None:
        m = re.match(rf'^Add the amounts on line (?P<a>{LAB})\.', b)
        if m:
            done(('addrows', m.group('a')), m, b)
    if expr is None:
        m = re.match(rf'^If line (?P<b>{LAB}) is more than line (?P<a>{LAB}), subtract line (?P<a2>{LAB}) from line (?P<b2>{LAB})\.', b)
        if m and m.group('a') == m.group('a2') and m.group('b') == m.group('b2'):
            done(('condsub', m.group('a'), m.group('b')), m, b)
    if expr is None:
        m = re.match(rf'^If line (?P<a>{LAB}) is less than line (?P<b>{LAB}), subtract line (?P<a2>{LAB}) from line (?P<b2>{LAB})\.', b)
        if m and m.group('a') == m.group('a2') and m.group('b') == m.group('b2'):
            done(('condsub', m.group('a'), m.group('b')), m, b)
    if expr is None:
        m = re.match(rf'^Subtract line (?P<a>{LAB}) from line (?P<b>{LAB})\.', b)
        if m:
            a, bb = m.group('a'), m.group('b')
            tail = b[m.end():]
            floor = None
            fm = re.match(rf'^\s*(?:If zero or less, enter 0(?:, and skip lines \d+ and \d+)?\.|If line {a} is more than line {bb}, enter 0\.|If the result is zero or less, enter 0\.)', tail)
            if fm:
                floor = 'zero'
                tail = tail[fm.end():]
            expr = ('sub', a, bb, floor)
            rm = re.match(r'^\s*If more than zero and not a multiple of \$1,000, enter the next multiple of \$1,000\.(?: For example,[^.]*\.(?:[^.]*\.)?)?(?:\s*etc\.)?', tail)
            if floor == 'zero' and rm:
                expr = ('roundup', expr, 1000.0)
                tail = tail[rm.end():]
                tail = re.sub(r'^[^.]*etc\.\s*', '', tail)
            rest = tail
    if expr is None:
        m = re.match(rf'^Multiply line (?P<a>{LAB}) by (?:(?P<pct>\d+(?:\.\d+)?) ?% \((?P<dec>0?\.\d+)\)|\$(?P<usd>[\d,]+)|line (?P<b>{LAB}))\.', b)
        if m:
            if m.group('b'):
                done(('mul', m.group('a'), ('line', m.group('b'))), m, b)
            elif m.group('usd'):
                done(('mul', m.group('a'), ('const', float(m.group('usd').replace(',', '')))), m, b)
            else:
                pct, dec = float(m.group('pct')), float(m.group('dec'))
                if abs(pct / 100.0 - dec) < 1e-9:
                    done(('mul', m.group('a'), ('const', dec)), m, b)
                    fm = re.match(r'^\s*If zero or less, enter 0\.', rest)
                    if fm:
                        expr = ('floor0', expr)
                        rest = rest[fm.end():]
    if expr is None:
        m = re.match(rf'^Enter the (?P<w>smaller|larger) of line (?P<a>{LAB}) or line (?P<b>{LAB})(?: here)?\.?', b)
        if m:
            done(('min' if m.group('w') == 'smaller' else 'max', m.group('a'), m.group('b')), m, b)
    if expr is None:
        m = re.match(rf'^Enter the amount from line (?P<a>{LAB})\.', b)
        if m:
            done(('copy', None, m.group('a')), m, b)
    if expr is None:
        m = re.match(rf'^Enter (?:the )?amount from (?:line (?P<a>{LAB}) of your (?P<f1>Form 1040)[^.]*|(?P<f2>Form D-400 Schedule [A-Z]+|Form 1040|Schedule [0-9A-Z]+)[^.]*?, line (?P<a2>{LAB}))\.', b)
        if m:
            f = find_form(m.group('f1') or m.group('f2'))
            done(('copy', f, m.group('a') or m.group('a2')), m, b)
    if expr is None:
        m = re.match(rf'^(?:Amount|Additional income|Adjustments to income|[A-Z][a-z ,\-]+?) from (?P<f>Schedule [0-9A-Z]+), line (?P<a>{LAB})\.', b)
        if m:
            done(('copy', find_form(m.group('f')), m.group('a')), m, b)
    if expr is None:
        # "Divide line 10 by $5,000 ($7,500 if head of household; $10,000 if married filing jointly or qualifying widow(er))."
        m = re.match(rf'^Divide line (?P<a>{LAB}) by \$(?P<d>[\d,]+) \(\$(?P<h>[\d,]+) if head of household; \$(?P<j>[\d,]+) if married filing jointly or qualifying (?:widow\(er\)|surviving spouse)\)\.', b)
        if m:
            num = lambda t: float(t.replace(',', ''))
            done(('divstatus', m.group('a'), {'Single': num(m.group('d')), 'MarriedFilingSeparately': num(m.group('d')), 'HeadOfHousehold': num(m.group('h')),
                                             'MarriedFilingJointly': num(m.group('j')), 'QSS': num(m.group('j'))}), m, b)
            rest = ''
    if expr is None:
        m = re.match(rf'^Divide line (?P<a>{LAB}) by line (?P<b>{LAB})\.', b)
        if m and '1.000' in b:
            expr = ('div1', m.group('a'), m.group('b'))
            rest = ''
    if expr is None:
        if carry and not UNRECOGNISED.search(CARRY.sub('', body)):
            return Instr(None, carry, t, include=include)
        if include:
            return Instr(None, [], t, include=include)
        return None
    # soundness: anything conditional that was not recognised => unparsed
    if rest is not None and not IGNORABLE_TAIL.match(rest):
        if UNRECOGNISED.search(rest):
            return None
    return Instr(expr, carry, t, include=include)


# ---------------------------------------------------------------------------
def evaluate(expr, get, tax=None, status=None):
    """get(label) -> float (0.0 when blank/absent). Returns float or None (not applicable).
    tax(amount) -> the year's income tax on that taxable income for the return's filing status (needed by 'tax')"""
    k = expr[0]
    if k == 'tax':
        return None if tax is None else tax(get(expr[1]))
    if k == 'divstatus':
        return None if status not in expr[2] else get(expr[1]) / expr[2][status]
    if k in ('addf', 'sumstmt', 'capf'):
        return None            # operands live on another form / on the payer statements: resolved by the caller (end-to-end only)
    if k == 'floor0':
        r = evaluate(expr[1], get)
        return None if r is None else max(0.0, r)
    if k == 'cap0':
        r = evaluate(expr[1], get)
        return None if r is None else min(0.0, r)
    if k == 'roundup':
        import math
        r = evaluate(expr[1], get)
        if r is None:
            return None
        if r <= 0:
            return 0.0
        # exact decimal arithmetic on cents: the next multiple of the unit, or the amount itself if it is one
        cents = round(r * 100)
        unit = round(expr[2] * 100)
        return float(((cents + unit - 1) // unit) * unit) / 100.0
    if k == 'add':
        return sum(get(l) for l in expr[1])
    if k == 'sub':
        r = get(expr[2]) - get(expr[1])
        if expr[3] == 'zero':
            return max(0.0, r)
        return r
    if k == 'condsub':
        a, b = get(expr[1]), get(expr[2])
        return b - a if b > a else 0.0
    if k == 'mul':
        f = expr[2][1] if expr[2][0] == 'const' else get(expr[2][1])
        return get(expr[1]) * f
    if k == 'min':
        return min(get(expr[1]), get(expr[2]))
    if k == 'max':
        return max(get(expr[1]), get(expr[2]))
    if k == 'copy':
        return get(expr[2])
    if k == 'div1':
        d = get(expr[2])
        if d == 0:
            return None
        return min(1.0, get(expr[1]) / d)
    raise ValueError(k)


def rename(expr, f):
    """apply label -> real line name mapping f to every operand of expr"""
    if expr is None:
        return None
    k = expr[0]
    if k == 'add':
        return ('add', [f(l) for l in expr[1]])
    if k == 'sub':
        return ('sub', f(expr[1]), f(expr[2]), expr[3])
    if k in ('condsub', 'min', 'max', 'div1'):
        return (k, f(expr[1]), f(expr[2]))
    if k == 'mul':
        return ('mul', f(expr[1]), expr[2] if expr[2][0] == 'const' else ('line', f(expr[2][1])))
    if k == 'copy':
        return ('copy', expr[1], f(expr[2]) if expr[1] is None else expr[2])
    if k in ('floor0', 'cap0'):
        return (k, rename(expr[1], f))
    if k == 'roundup':
        return ('roundup', rename(expr[1], f), expr[2])
    return expr
