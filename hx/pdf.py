"""Minimal stdlib PDF reader: enough to read the AcroForm field tree (names,
/FT, /Ff, /MaxLen, button on-states, choice options, /TU tooltips), the XFA
packets and page text of the bundled templates. No external dependencies.

The file is scanned for `N G obj` bodies (later definitions win, as with
incremental updates) and object streams are expanded; cross-reference tables
are not needed for these templates (none is encrypted)."""
import re
import zlib


class Ref(object):
    __slots__ = ('num', 'gen')

    def __init__(self, num, gen):
        self.num = num
        self.gen = gen

    def __repr__(self):
        return f'{self.num} {self.gen} R'

    def __eq__(self, o):
        return isinstance(o, Ref) and o.num == self.num

    def __hash__(self):
        return hash(self.num)


class Name(str):
    pass


class Stream(object):
    def __init__(self, d, raw):
        self.dict = d
        self.raw = raw

    def data(self):
        data = self.raw
        flt = self.dict.get('Filter')
        flts = flt if isinstance(flt, list) else ([flt] if flt else [])
        parms = self.dict.get('DecodeParms')
        parms = parms if isinstance(parms, list) else [parms] * max(1, len(flts))
        for f, p in zip(flts, parms):
            if f == 'FlateDecode':
                data = zlib.decompress(data)
                if isinstance(p, dict) and p.get('Predictor', 1) >= 10:
                    data = _png_unpredict(data, p.get('Columns', 1))
            elif f == 'ASCIIHexDecode':
                data = bytes.fromhex(re.sub(rb'[^0-9A-Fa-f]', b'', data).decode())
            else:
                raise ValueError(f'unsupported filter {f}')
        return data


def _png_unpredict(data, columns):
    rowlen = columns + 1
    out = bytearray()
    prev = bytearray(columns)
    for r in range(0, len(data), rowlen):
        ft = data[r]
        row = bytearray(data[r + 1:r + rowlen])
        if ft == 2:
            for i in range(len(row)):
                row[i] = (row[i] + prev[i]) & 255
        elif ft == 1:
            for i in range(1, len(row)):
                row[i] = (row[i] + row[i - 1]) & 255
        elif ft != 0:
            raise ValueError('png predictor %d' % ft)
        out += row
        prev = row
    return bytes(out)


WS = b' \t\r\n\x0c\x00'
DELIM = b'()<>[]{}/%'


class Parser(object):
    def __init__(self, data, pos=0):
        self.d = data
        self.p = pos

    def skip(self):
        d = self.d
        while self.p < len(d):
            c = d[self.p:self.p + 1]
            if c in (b' ', b'\t', b'\r', b'\n', b'\x0c', b'\x00'):
                self.p += 1
            elif c == b'%':
                while self.p < len(d) and d[self.p:self.p + 1] not in (b'\r', b'\n'):
                    self.p += 1
            else:
                break

    def parse(self):
        self.skip()
        d = self.d
        c = d[self.p:self.p + 1]
        if c == b'<':
            if d[self.p:self.p + 2] == b'<<':
                self.p += 2
                out = {}
                while True:
                    self.skip()
                    if d[self.p:self.p + 2] == b'>>':
                        self.p += 2
                        return out
                    k = self.parse()
                    v = self.parse()
                    out[str(k)] = v
            end = d.index(b'>', self.p)
            hx = re.sub(rb'\s', b'', d[self.p + 1:end])
            if len(hx) % 2:
                hx += b'0'
            self.p = end + 1
            return bytes.fromhex(hx.decode())
        if c == b'(':
            return self.literal()
        if c == b'[':
            self.p += 1
            out = []
            while True:
                self.skip()
                if d[self.p:self.p + 1] == b']':
                    self.p += 1
                    return out
                out.append(self.parse())
        if c == b'/':
            m = re.compile(rb'/([^\s()<>\[\]{}/%]*)').match(d, self.p)
            self.p = m.end()
            raw = m.group(1)
            raw = re.sub(rb'#([0-9A-Fa-f]{2})', lambda mm: bytes([int(mm.group(1), 16)]), raw)
            return Name(raw.decode('latin-1'))
        m = re.compile(rb'(\d+)\s+(\d+)\s+R(?![A-Za-z])').match(d, self.p)
        if m:
            self.p = m.end()
            return Ref(int(m.group(1)), int(m.group(2)))
        m = re.compile(rb'[+-]?(\d+\.?\d*|\.\d+)').match(d, self.p)
        if m:
            self.p = m.end()
            t = m.group(0)
            return float(t) if b'.' in t else int(t)
        m = re.compile(rb'[A-Za-z]+').match(d, self.p)
        if m:
            self.p = m.end()
            w = m.group(0)
            return {b'true': True, b'false': False, b'null': None}.get(w, Name(w.decode()))
        raise ValueError(f'cannot parse at {self.p}: {d[self.p:self.p + 20]!r}')

    def literal(self):
        d = self.d
        assert d[self.p:self.p + 1] == b'('
        self.p += 1
        depth = 1
        out = bytearray()
        while True:
            c = d[self.p]
            if c == 0x5c:   # backslash
                n = d[self.p + 1]
                self.p += 2
                if n in b'nrtbf':
                    out.append({110: 10, 114: 13, 116: 9, 98: 8, 102: 12}[n])
                elif n in b'()\\':
                    out.append(n)
                elif 48 <= n <= 55:
                    oc = chr(n)
                    for _ in range(2):
                        if self.p < len(d) and 48 <= d[self.p] <= 55:
                            oc += chr(d[self.p])
                            self.p += 1
                        else:
                            break
                    out.append(int(oc, 8) & 255)
                elif n in (13, 10):
                    if n == 13 and d[self.p] == 10:
                        self.p += 1
                else:
                    out.append(n)
                continue
            if c == 0x28:
                depth += 1
            elif c == 0x29:
                depth -= 1
                if depth == 0:
                    self.p += 1
                    return bytes(out)
            out.append(c)
            self.p += 1


def text_of(b):
    """PDF text string -> str"""
    if b is None:
        return None
    if isinstance(b, str):
        return b
    if b[:2] == b'\xfe\xff':
        return b[2:].decode('utf-16-be', 'replace')
    try:
        return b.decode('utf-8') if b[:3] != b'\xef\xbb\xbf' else b[3:].decode('utf-8')
    except UnicodeDecodeError:
        return b.decode('latin-1')


class Doc(object):
    def __init__(self, path):
        self.path = path
        with open(path, 'rb') as f:
            self.data = f.read()
        self.objs = {}
        self._scan()

    def _scan(self):
        d = self.data
        for m in re.finditer(rb'(?<![0-9])(\d+)\s+(\d+)\s+obj\b', d):
            num = int(m.group(1))
            p = Parser(d, m.end())
            try:
                val = p.parse()
            except Exception:
                continue
            p.skip()
            if d[p.p:p.p + 6] == b'stream' and isinstance(val, dict):
                s = p.p + 6
                if d[s:s + 2] == b'\r\n':
                    s += 2
                elif d[s:s + 1] in (b'\n', b'\r'):
                    s += 1
                ln = val.get('Length')
                if isinstance(ln, int) and d[s + ln:s + ln + 20].lstrip(b'\r\n').startswith(b'endstream'):
                    e = s + ln
                else:
                    e = d.index(b'endstream', s)
                    while e > s and d[e - 1:e] in (b'\r', b'\n'):
                        e -= 1
                val = Stream(val, d[s:e])
            self.objs[num] = val
        # expand object streams
        for num, val in list(self.objs.items()):
            if isinstance(val, Stream) and val.dict.get('Type') == 'ObjStm':
                try:
                    data = val.data()
                except Exception:
                    continue
                n = val.dict['N']
                first = val.dict['First']
                head = data[:first].split()
                for k in range(n):
                    onum = int(head[2 * k])
                    off = int(head[2 * k + 1])
                    try:
                        self.objs[onum] = Parser(data, first + off).parse()
                    except Exception:
                        pass

    def resolve(self, x, depth=0):
        while isinstance(x, Ref) and depth < 50:
            x = self.objs.get(x.num)
            depth += 1
        return x

    def catalog(self):
        for v in self.objs.values():
            if isinstance(v, dict) and v.get('Type') == 'Catalog':
                return v
        raise ValueError('no catalog')

    # -- AcroForm ---------------------------------------------------------
    def fields(self):
        """list of terminal fields: dict(name, ft, ff, maxlen, states, opt, tu, widgets)"""
        af = self.resolve(self.catalog().get('AcroForm'))
        out = []
        seen = set()

        def walk(ref, prefix, inh):
            node = self.resolve(ref)
            if not isinstance(node, dict):
                return
            key = ref.num if isinstance(ref, Ref) else id(node)
            if key in seen:
                return
            seen.add(key)
            inh = dict(inh)
            for k in ('FT', 'Ff', 'MaxLen', 'Opt'):
                if k in node:
                    inh[k] = self.resolve(node[k])
            t = node.get('T')
            name = prefix
            if t is not None:
                tn = text_of(self.resolve(t))
                name = f'{prefix}.{tn}' if prefix else tn
            kids = self.resolve(node.get('Kids')) or []
            field_kids = [k for k in kids if isinstance(self.resolve(k), dict) and 'T' in self.resolve(k)]
            if field_kids:
                for k in kids:
                    walk(k, name, inh)
                return
            widgets = [self.resolve(k) for k in kids] if kids else [node]
            states = set()
            for w in widgets:
                ap = self.resolve(w.get('AP')) if isinstance(w, dict) else None
                if isinstance(ap, dict):
                    n = self.resolve(ap.get('N'))
                    if isinstance(n, dict):
                        states |= {str(s) for s in n.keys()}
            opt = inh.get('Opt')
            opts = None
            if isinstance(opt, list):
                opts = []
                for o in opt:
                    o = self.resolve(o)
                    if isinstance(o, list):
                        opts.append(text_of(self.resolve(o[0])))
                    else:
                        opts.append(text_of(o))
            out.append({'name': name, 'ft': str(inh.get('FT')) if inh.get('FT') is not None else None,
                        'ff': inh.get('Ff', 0) or 0, 'maxlen': inh.get('MaxLen'), 'states': states,
                        'opt': opts, 'tu': text_of(self.resolve(node.get('TU'))), 'nwidgets': len(widgets),
                        'parent': prefix})
        for f in self.resolve(af.get('Fields')) or []:
            walk(f, '', {})
        return out

    def xfa(self):
        """dict packet name -> bytes"""
        af = self.resolve(self.catalog().get('AcroForm'))
        x = self.resolve(af.get('XFA')) if af else None
        out = {}
        if isinstance(x, list):
            for k in range(0, len(x) - 1, 2):
                nm = text_of(self.resolve(x[k]))
                st = self.resolve(x[k + 1])
                if isinstance(st, Stream):
                    out[nm] = st.data()
        elif isinstance(x, Stream):
            out['xdp'] = x.data()
        return out


_CACHE = {}


def load(path):
    if path not in _CACHE:
        _CACHE[path] = Doc(path)
    return _CACHE[path]


def template_fields(path):
    """{fully qualified field name: info}"""
    key = ('fields', path)
    if key not in _CACHE:
        _CACHE[key] = {f['name']: f for f in load(path).fields()}
    return _CACHE[key]


# ---------------------------------------------------------------------------
# XFA template: per-widget accessibility text (<assist><speak>) and limits

def _local(tag):
    return tag.split('}', 1)[1] if '}' in tag else tag


def xfa_fields(path):
    """{fully qualified name (AcroForm style): {'speak': str|None, 'maxchars': int|None,
    'items': [on/off values], 'excl_group': id|None, 'kind': 'text'|'check'|...}}"""
    key = ('xfa', path)
    if key in _CACHE:
        return _CACHE[key]
    import xml.etree.ElementTree as ET
    packets = load(path).xfa()
    out = {}
    tpl = packets.get('template')
    if tpl is None:
        _CACHE[key] = out
        return out
    root = ET.fromstring(tpl)
    group_ids = [0]

    def walk(el, prefix, counters, excl):
        for ch in el:
            tag = _local(ch.tag)
            if tag in ('subform', 'exclGroup', 'area', 'subformSet'):
                nm = ch.get('name')
                new_excl = excl
                if tag == 'exclGroup':
                    group_ids[0] += 1
                    new_excl = group_ids[0]
                if nm:
                    idx = counters.get(nm, 0)
                    counters[nm] = idx + 1
                    p2 = f'{prefix}.{nm}[{idx}]' if prefix else f'{nm}[{idx}]'
                    walk(ch, p2, {}, new_excl)
                else:
                    walk(ch, prefix, counters, new_excl)
            elif tag == 'field':
                nm = ch.get('name')
                if not nm:
                    continue
                idx = counters.get(nm, 0)
                counters[nm] = idx + 1
                full = f'{prefix}.{nm}[{idx}]' if prefix else f'{nm}[{idx}]'
                info = {'speak': None, 'maxchars': None, 'items': [], 'excl_group': excl, 'kind': None}
                for sub in ch.iter():
                    t = _local(sub.tag)
                    if t == 'speak' and sub.text:
                        info['speak'] = ' '.join(sub.text.split())
                    elif t == 'text' and sub.get('maxChars'):
                        info['maxchars'] = int(sub.get('maxChars'))
                    elif t == 'comb' and sub.get('numberOfCells'):
                        info['comb'] = int(sub.get('numberOfCells'))
                    elif t in ('checkButton', 'textEdit', 'choiceList', 'numericEdit', 'dateTimeEdit'):
                        info['kind'] = t
                    elif t == 'items':
                        info['items'] = [(x.text or '') for x in sub]
                out[full] = info
    walk(root, '', {}, None)
    _CACHE[key] = out
    return out


# ---------------------------------------------------------------------------
# page text through the fonts' ToUnicode CMaps (used for the NC templates)

def _parse_cmap(data):
    """ToUnicode CMap -> (code length in bytes, {code: str})"""
    m = {}
    codelen = 1
    cs = re.search(rb'begincodespacerange\s*<([0-9A-Fa-f]+)>', data)
    if cs:
        codelen = len(cs.group(1)) // 2
    for blk in re.finditer(rb'beginbfchar(.*?)endbfchar', data, re.S):
        for a, b in re.findall(rb'<([0-9A-Fa-f]+)>\s*<([0-9A-Fa-f]*)>', blk.group(1)):
            m[int(a, 16)] = bytes.fromhex(b.decode()).decode('utf-16-be', 'replace') if b else ''
    for blk in re.finditer(rb'beginbfrange(.*?)endbfrange', data, re.S):
        body = blk.group(1)
        for a, b, c in re.findall(rb'<([0-9A-Fa-f]+)>\s*<([0-9A-Fa-f]+)>\s*<([0-9A-Fa-f]+)>', body):
            lo, hi, start = int(a, 16), int(b, 16), int(c, 16)
            for k in range(lo, hi + 1):
                try:
                    m[k] = chr(start + k - lo) if len(c) <= 4 else bytes.fromhex(c.decode()).decode('utf-16-be', 'replace')
                except ValueError:
                    pass
        for a, b, arr in re.findall(rb'<([0-9A-Fa-f]+)>\s*<([0-9A-Fa-f]+)>\s*\[(.*?)\]', body, re.S):
            lo = int(a, 16)
            for k, h in enumerate(re.findall(rb'<([0-9A-Fa-f]+)>', arr)):
                m[lo + k] = bytes.fromhex(h.decode()).decode('utf-16-be', 'replace')
    return codelen, m


def page_texts(path):
    """list (one per page) of decoded text; text-showing operators are joined with
    spaces when the TJ displacement is large or a new text line starts"""
    key = ('pagetext', path)
    if key in _CACHE:
        return _CACHE[key]
    doc = load(path)
    pages = []

    def collect(node):
        node = doc.resolve(node)
        if not isinstance(node, dict):
            return
        if node.get('Type') == 'Pages':
            for k in doc.resolve(node.get('Kids')) or []:
                collect(k)
        elif node.get('Type') == 'Page':
            pages.append(node)
    collect(doc.catalog().get('Pages'))
    out = []
    for pg in pages:
        res = doc.resolve(pg.get('Resources')) or {}
        fonts = {}
        for name, fref in (doc.resolve(res.get('Font')) or {}).items():
            f = doc.resolve(fref)
            tu = doc.resolve(f.get('ToUnicode')) if isinstance(f, dict) else None
            if isinstance(tu, Stream):
                try:
                    fonts[name] = _parse_cmap(tu.data())
                except Exception:
                    pass
        contents = doc.resolve(pg.get('Contents'))
        streams = contents if isinstance(contents, list) else [contents]
        data = b''
        for s in streams:
            s = doc.resolve(s)
            if isinstance(s, Stream):
                try:
                    data += s.data() + b'\n'
                except Exception:
                    pass
        out.append(_content_text(data, fonts))
    _CACHE[key] = out
    return out


def _decode(b, font):
    if font is None:
        return b.decode('latin-1')
    codelen, cmap = font
    chars = []
    for k in range(0, len(b) - codelen + 1, codelen):
        code = int.from_bytes(b[k:k + codelen], 'big')
        chars.append(cmap.get(code, ''))
    return ''.join(chars)


def _content_text(data, fonts):
    p = Parser(data)
    stack = []
    font = None
    out = []
    n = len(data)
    while True:
        p.skip()
        if p.p >= n:
            break
        try:
            tok = p.parse()
        except Exception:
            p.p += 1
            continue
        if isinstance(tok, Name) and not data[max(0, p.p - len(tok) - 1):p.p].startswith(b'/'):
            op = str(tok)
            if op == 'Tf' and len(stack) >= 2:
                font = fonts.get(str(stack[-2]))
            elif op == 'Tj' and stack and isinstance(stack[-1], bytes):
                out.append(_decode(stack[-1], font))
            elif op == 'TJ' and stack and isinstance(stack[-1], list):
                for el in stack[-1]:
                    if isinstance(el, bytes):
                        out.append(_decode(el, font))
                    elif isinstance(el, (int, float)) and el < -200:
                        out.append(' ')
            elif op in ("'", '"') and stack and isinstance(stack[-1], bytes):
                out.append('\n' + _decode(stack[-1], font))
            elif op in ('Td', 'TD', 'T*', 'Tm', 'ET'):
                out.append('\n')
            if op == 'BI':
                e = data.find(b'EI', p.p)
                p.p = e + 2 if e > 0 else n
            stack = []
        else:
            stack.append(tok)
    text = ''.join(out)
    text = re.sub(r'[ \t]+', ' ', text)
    text = re.sub(r'\s*\n\s*', '\n', text)
    return text
