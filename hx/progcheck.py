"""Run one generated program through the real solver and compare with the
independent reference model, the demand closure and the work bounds.
Returns discrepancies tagged by property so that C01/C03/C04/C05/C06/C13 can
each decide their own share."""
from hx import closure, progs, solve


def answer_fn_for(program):
    pr = program['prompt']
    if pr['mode'] == 'none':
        return None
    state = {'n': 0}

    def fn(missing, needed_by):
        if pr['mode'] == 'refuse' and state['n'] >= pr['k']:
            return None
        state['n'] += 1
        typ = {'IntegerInput': 'int', 'FloatInput': 'float', 'BooleanInput': 'bool'}[type(missing).__name__]
        return pr['answers'].get(missing.name(), progs.DEFAULT_ANSWER[typ])
    return fn


def run_program(program, schedule=None):
    counters = progs.Counters()
    classes = progs.build_classes(program, counters)
    cp = solve.config_from_dict(program['file'])
    r = solve.run(classes, program['request'], cp, answer_fn=answer_fn_for(program), schedule=schedule)
    r.counters = counters
    return r


def n_lines_inputs(program):
    nl = sum(max(1, len(f['lines']) if f['kind'] != 'inputform' else len(f['inputs'])) for f in program['forms'])
    ni = sum(len(f['inputs']) for f in program['forms'])
    return nl, ni


def check(program, r, m=None):
    """-> list of (property, bucket, message)"""
    out = []
    m = m if m is not None else progs.model(program)
    trace = r.trace
    # ---- C06: bounded work (always) -----------------------------------
    asked = [p[0] for p in trace.prompts]
    if len(asked) != len(set(asked)):
        out.append(('C06', 'asked-twice', f'an input was passed to the prompt more than once: {asked}'))
    refused_at = [k for k, p in enumerate(trace.prompts) if not p[2]]
    if refused_at and refused_at[0] != len(trace.prompts) - 1:
        out.append(('C06', 'prompt-after-refusal', f'prompt called again after a refusal: {trace.prompts}'))
    waited = {}
    for name, reads, ending in trace.attempts:
        for kind, key, outcome, _ in reads:
            if outcome in ('unmet', 'missing', 'nospec'):
                # an input of a form that is not yet part of the solve costs two attempts: one that makes the solver
                # declare the input (immediate retry) and one that registers the wait
                waited.setdefault(name, set()).add((kind, key, 'declare' if outcome == 'nospec' else 'wait'))
    for name, n in trace.attempt_counts().items():
        bound = 2 + len(waited.get(name, ()))
        if n > bound and not isinstance(r.exc, RecursionError):
            out.append(('C06', 'evaluated-too-often', f'{name} was evaluated {n} times but waited for only {len(waited.get(name, ()))} distinct names/declarations'))
            break
    if isinstance(r.exc, RecursionError):
        out.append(('C06', 'unbounded-recursion', f'solve() ended in RecursionError after {len(trace.attempts)} evaluations'))
    if r.exc is not None and isinstance(r.exc, AssertionError) and not m['abort']:
        out.append(('C06', 'solver-assertion', f'solver assertion on a well-formed program: {r.exc!r}'))

    # ---- aborts --------------------------------------------------------
    if m['abort']:
        if m['unique'] and r.exc is None:
            out.append(('C01', 'no-abort', f'reference model aborts ({m.get("abort_msg")}) but solve() returned {r.verdict}'))
        return out
    if r.exc is not None:
        if m['unique'] and not isinstance(r.exc, (RecursionError, solve.LoopBudgetExceeded, progs.BudgetExceeded)):
            out.append(('C01', 'unexpected-abort:' + type(r.exc).__name__, f'well-formed program but solve() raised {r.exc!r}'))
        return out

    # ---- closure oracle (always valid) ---------------------------------
    disc, c = closure.compare(r, program['request'])
    out.extend(disc)

    # ---- C13: demand-exact prompting ------------------------------------
    for inp, needed_by, supplied, text in trace.prompts:
        if inp in program['file']:
            out.append(('C13', 'asked-supplied', f'{inp} was in the file but the prompt was called for it'))
        readers = {name for name, reads, _ in trace.attempts for kind, key, outcome, _ in reads
                   if kind == 'i' and key == inp and outcome == 'missing'}
        if not readers:
            out.append(('C13', 'asked-unread', f'{inp} was prompted although no evaluated line read it while absent'))
        if not set(needed_by) <= readers:
            out.append(('C13', 'needed-by', f'{inp}: needed_by={needed_by} but only {sorted(readers)} read it'))

    # ---- reference model (unique prediction only) ----------------------
    if m['unique']:
        if bool(r.verdict) != bool(m['verdict']):
            out.append(('C01', 'model-verdict', f'solve() returned {r.verdict}, reference model says {m["verdict"]}'))
        if set(r.unimplemented) != m['unimplemented']:
            out.append(('C01', 'model-unimplemented', f'unimplemented {sorted(r.unimplemented)} vs model {sorted(m["unimplemented"])}'))
        if solve.canon_diag(r.unmet_inputs) != {k: sorted(v) for k, v in m['missing'].items()}:
            out.append(('C01', 'model-missing', f'missing inputs {r.unmet_inputs} vs model {m["missing"]}'))
        if solve.canon_diag(r.unmet_fields) != {k: sorted(v) for k, v in m['blocked'].items()}:
            out.append(('C01', 'model-blocked', f'blocked {r.unmet_fields} vs model {m["blocked"]}'))
        if set(r.values) != set(m['solution']):
            out.append(('C04', 'model-keys', f'solution keys differ from model: {sorted(set(r.values) ^ set(m["solution"]))[:6]}'))
        else:
            for k_, v_ in m['solution'].items():
                if not closure.same_value(r.values[k_], v_):
                    out.append(('C03', 'model-value', f'{k_} = {r.values[k_]!r}, reference model computes {v_!r}'))
                    break
        if r.forms != m['forms']:
            out.append(('C04', 'model-forms', f'forms {sorted(r.forms)} vs model {sorted(m["forms"])}'))
        if set(asked) != set(m['asked']) and program['prompt']['mode'] == 'total':
            out.append(('C13', 'model-asked', f'asked {sorted(asked)} vs model {sorted(m["asked"])}'))
    return out


def classify(program, r, m):
    """labels for the non-triviality accounting"""
    labels = set()
    counts = r.trace.attempt_counts()
    if any(n >= 2 for n in counts.values()):
        labels.add('line_waited')
    if any(n >= 3 for n in counts.values()):
        labels.add('line_waited_twice')
    if any(e == 'not_implemented' for _, _, e in r.trace.attempts):
        labels.add('ni_evaluated')
    if r.exc is not None:
        labels.add('abort')
    if any(not p[2] for p in r.trace.prompts):
        labels.add('refusal' + ('_after_answer' if len(r.trace.prompts) > 1 else ''))
    if any(p[2] for p in r.trace.prompts):
        labels.add('answered')
    if r.exc is None:
        if r.unmet_inputs and r.values:
            labels.add('missing_after_success')
        if r.unmet_fields:
            labels.add('blocked')
            if len(r.unmet_fields) >= 2:
                labels.add('blocked_depth2')
        if r.verdict:
            labels.add('solved')
        if len(r.forms) > len(program['request']):
            labels.add('late_form')
    if progs.has_cycle_or_self(program):
        labels.add('cycle')
    return labels
