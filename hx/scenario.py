"""Scenario generator for real returns: answer on demand.

A persona is drawn (Hypothesis), then the real solver is run on an empty input
file with a prompt callback whose answers come from the persona's answer
policy; exactly the demanded inputs get values, and the completed INI file is
the scenario (replayable artefact). Oracles never rely on this run: every
check re-solves the completed file in file mode."""
import configparser
import json
import os

from hypothesis import strategies as st

import habutax.forms as hforms

from hx import catalog, solve

HERE = os.path.dirname(os.path.dirname(os.path.abspath(__file__)))
with open(os.path.join(HERE, 'data', 'gates_discovered.json')) as _f:
    GATES = json.load(_f)

STATUSES = ['Single', 'MarriedFilingJointly', 'MarriedFilingSeparately', 'HeadOfHousehold', 'QSS']


def status_name(year, s):
    if s == 'QSS':
        return 'QualifyingWidowWidower' if year == 2021 else 'QualifyingSurvivingSpouse'
    return s


def norm_key(full):
    """w-2:3.box_1 -> w-2:*.box_1 (numbered instances only)"""
    form, base = full.split('.', 1)
    fb = form.split(':')
    if len(fb) == 2 and fb[1].isdigit():
        form = fb[0] + ':*'
    return f'{form}.{base}'


def gate_info(year, full):
    return GATES[str(year)].get(norm_key(full))


# ---------------------------------------------------------------------------
# persona

@st.composite
def personas(draw, years=(2021, 2022, 2023), forms=None, mode='solving', exclusions=None):
    year = draw(st.sampled_from(list(years)))
    status = draw(st.sampled_from(STATUSES))
    if forms is None:
        forms_ = draw(st.sampled_from([['1040'], ['1040'], ['1040', 'nc_d-400'], ['1040', 'nc_d-400']]))
    else:
        forms_ = list(forms)
    ndep = draw(st.sampled_from([0, 0, 0, 1, 2, 3, 4]))
    deps = []
    for _ in range(ndep):
        deps.append(draw(st.sampled_from(['ctc', 'ctc', 'odc', 'none'])))
    p = {
        'year': year, 'status': status, 'forms': forms_, 'mode': mode,
        'n_w2': draw(st.sampled_from([0, 1, 1, 1, 2, 2, 3])),
        'n_int': draw(st.sampled_from([0, 0, 1, 1, 2, 3])),
        'n_div': draw(st.sampled_from([0, 0, 1, 1, 2])),
        'n_r': draw(st.sampled_from([0, 0, 0, 1, 2])),
        'n_g': draw(st.sampled_from([0, 0, 0, 1])),
        'n_1098': draw(st.sampled_from([0, 0, 1, 2])),
        'deps': deps,
        'wage_level': draw(st.sampled_from(['low', 'mid', 'mid', 'high', 'high', 'vhigh'])),
        'itemize': draw(st.sampled_from([False, False, True])),
        'big_interest': draw(st.booleans()),       # pushes Schedule B
        's1_income': draw(st.sampled_from([False, False, True])),
        's1_adjust': draw(st.sampled_from([False, False, True])),
        'hsa_you': draw(st.sampled_from([False, False, False, True])),
        'hsa_spouse': draw(st.sampled_from([False, False, False, True])),
        'foreign_tax': draw(st.sampled_from([False, False, True])),
        's199a': draw(st.sampled_from([False, False, False, True])),
        'ira': draw(st.sampled_from(['none', 'none', 'plain', '8606', 'rollover'])),
        'nc_additions': draw(st.booleans()),
        'nc_deductions': draw(st.booleans()),
        'nc_itemize': draw(st.sampled_from([False, False, True])),
        'use_tax': draw(st.sampled_from(['certify', 'table', 'records'])),
        'withhold_share': draw(st.sampled_from([0.0, 0.1, 0.2, 0.3, 0.5])),
        'amount_bias': draw(st.sampled_from(['zero', 'small', 'typical', 'typical', 'large'])),
        'text_style': draw(st.sampled_from(['plain', 'plain', 'spaced', 'case'])),
        'gates_on': [],          # filled by gate mode
        'excluded': [],
    }
    return constrain(p) if mode == 'solving' else p


def constrain(p):
    """exclusion by construction: persona-level couplings that keep campaigns
    exploring behind crashes/unsupported computed situations that violate no
    listed property; every adjustment is recorded in p['excluded'] and counted
    in evidence"""
    ex = p['excluded']
    nc = 'nc_d-400' in p['forms']
    if nc and p['n_1098'] == 0:
        p['n_1098'] = 1
        ex.append('NC return with zero 1098s (nc_d-400_sa.1 sums an empty list to int -> TypeError)')
    if p['itemize'] and p['n_1098'] == 0:
        p['n_1098'] = 1
        ex.append('Schedule A with zero 1098s (1040_sa.8a sums an empty list to int -> TypeError)')
    if nc and p['status'] == 'QSS':
        p['status'] = 'HeadOfHousehold'
        ex.append('NC return for a qualifying surviving spouse (nc_d-400.year_spouse_died returns int for a text line -> TypeError)')
    order = ['low', 'mid', 'high', 'vhigh']
    if p['wage_level'] == 'vhigh' and p['status'] not in ('MarriedFilingJointly', 'QSS'):
        p['wage_level'] = 'high'
        ex.append('income high enough that the Form 6251 worksheet demands the unsupported Schedule 2 (computed unsupported situation)')
    if p['status'] == 'MarriedFilingSeparately' and p['wage_level'] == 'high':
        p['wage_level'] = 'mid'
        ex.append('income high enough that the Form 6251 worksheet demands the unsupported Schedule 2 (computed unsupported situation)')
    nctc = sum(1 for x in p['deps'] if x == 'ctc')
    need = 'low'
    if p['deps']:
        need = 'mid'
    if nctc >= 2:
        need = 'high'
    if order.index(p['wage_level']) < order.index(need):
        p['wage_level'] = need
        ex.append('income below the EIC / additional-child-tax-credit range for this household (computed unsupported situation)')
    if p['n_w2'] == 0 and p['wage_level'] != 'low':
        p['n_w2'] = 1
    if p['s199a'] and p['wage_level'] in ('high', 'vhigh'):
        p['s199a'] = False
        ex.append('section 199A dividends with AGI above the Form 8995 limit (computed unsupported situation)')
    return p


# ---------------------------------------------------------------------------
# answer policy

WAGES = {'low': (18000, 64000), 'mid': (64000, 120000), 'high': (120000, 260000), 'vhigh': (260000, 320000)}

TRUE_WORDS = ['yes', 'Yes', 'y', 'true', 'TRUE', '1', 'on', ' yes ']
FALSE_WORDS = ['no', 'No', 'n', 'false', 'FALSE', '0', 'off', ' no ']


def money(draw, lo, hi):
    cents = draw(st.integers(int(lo * 100), int(hi * 100)))
    return cents / 100.0


def fmt_money(draw, x, style):
    if x == int(x) and draw(st.integers(0, 2)) == 0:
        s = str(int(x))
    elif x > 0 and draw(st.integers(0, 11)) == 0:
        s = f'{x:.2f}' + draw(st.sampled_from(['4', '49', '1']))     # valid float text with sub-cent digits
    else:
        s = f'{x:.2f}'
    if style == 'spaced':
        s = ' ' + s + ' '
    return s


class Policy(object):
    """maps (input object, persona) -> raw text; every random choice is a
    Hypothesis draw through self.draw"""

    def __init__(self, persona, draw):
        self.p = persona
        self.draw = draw
        self.year = persona['year']
        self.memo = {}

    def boolean(self, val):
        style = self.p['text_style']
        if style == 'plain':
            return 'yes' if val else 'no'
        return self.draw(st.sampled_from(TRUE_WORDS if val else FALSE_WORDS))

    def amount(self, lo, hi, zero_ok=True):
        bias = self.p['amount_bias']
        if zero_ok and (bias == 'zero' or self.draw(st.integers(0, 2)) == 0):
            return 0.0
        if bias == 'small':
            hi = lo + (hi - lo) * 0.1
        return money(self.draw, lo, hi)

    def answer(self, inp):
        p = self.p
        full = inp.name()
        form, base = full.split('.', 1)
        fbase = form.split(':')[0]
        inst = form.split(':')[1] if ':' in form else None
        kind = catalog.input_kind(inp)
        d = self.draw
        mfj = p['status'] == 'MarriedFilingJointly'

        # ---- gates (solving mode: safe polarity) ----------------------
        g = gate_info(self.year, full)
        if kind == 'bool':
            if norm_key(full) in p['gates_on']:
                return self.boolean(g['polarity'] if g else True)
            v = self.structural_bool(fbase, inst, base)
            if v is not None:
                return self.boolean(v)
            if g is not None and not g.get('amount'):
                return self.boolean(not g['polarity'])
            return self.boolean(False)

        if kind == 'enum':
            return self.enum(inp, fbase, base)
        if kind == 'int':
            return str(self.integer(fbase, inst, base))
        if kind == 'float':
            x = self.float_amount(fbase, inst, base, g)
            return fmt_money(d, round(x, 2), p['text_style'])
        if kind == 'ssn':
            digits = ''.join(str(d(st.integers(0, 9))) for _ in range(9))
            return digits if d(st.booleans()) else f'{digits[:3]}-{digits[3:5]}-{digits[5:]}'
        if kind == 'regex':
            if 'routing' in base:
                return d(st.sampled_from(['021000021', '111000025', '322271627']))
            return d(st.sampled_from(['12345678', 'ACCT-001', '000123456789']))
        # strings
        return self.text(fbase, base)

    # -- booleans that shape the return rather than gate it ---------------
    def structural_bool(self, fbase, inst, base):
        p = self.p
        table = {
            ('1040', 'itemize'): p['itemize'],
            ('1040', 'schedule_1_additional_income'): p['s1_income'],
            ('1040', 'schedule_1_income_adjustments'): p['s1_adjust'] or p['hsa_you'] or p['hsa_spouse'],
            ('1040', 'need_schedule_3_part_i'): False,
            ('1040', 'checking_account'): self.draw(st.booleans()),
            ('1040', 'you_presidential_election'): self.draw(st.booleans()),
            ('1040', 'spouse_presidential_election'): self.draw(st.booleans()),
            ('1040', 'claimed_as_dependent'): False,
            ('1040', 'form_4797'): False,
            ('1040_sa', 'itemize_though_less'): self.draw(st.booleans()),
            ('1040_sa', 'mortgage_insurance_premiums_special'): False,
            ('1040_sa', 'filling_8283'): self.draw(st.integers(0, 3)) != 0,
            ('1040_s1', 'state_local_income_tax_adjust'): False,
            ('1040_s1', 'need_other_income'): self.draw(st.booleans()),
            ('1040_s1', 'need_other_adjustments'): self.draw(st.booleans()),
            ('1040_s1', 'hsa_contribution_you'): p['hsa_you'],
            ('1040_s1', 'hsa_contribution_spouse'): p['hsa_spouse'] and p['status'] == 'MarriedFilingJointly',
            ('1040_s8812', 'principal_abode_us'): True,
            ('1040_s8812', 'resident_puerto_rico'): False,
            ('8889', 'hdhp_plan_family'): False,
            ('8889', 'age_under_55'): True,
            ('8889', 'hsa_full_year'): True,
            ('8606', 'part_1_needed'): True,
            ('8606', 'distribution_or_roth_conversion'): True,
            ('8606', 'part_2_needed'): self.draw(st.booleans()),
            ('8606', 'part_3_needed'): False,
            ('nc_d-400', 'nc_residents'): True,
            ('nc_d-400', 'out_of_country'): self.draw(st.booleans()),
            ('nc_d-400', 'veteran'): self.draw(st.booleans()),
            ('nc_d-400', 'spouse_veteran'): self.draw(st.booleans()),
            ('nc_d-400', 'federal_extension'): self.draw(st.booleans()),
            ('nc_d-400', 'additions_to_agi'): p['nc_additions'],
            ('nc_d-400', 'deductions_from_agi'): p['nc_deductions'],
            ('nc_d-400', 'try_itemizing'): p['nc_itemize'],
            ('nc_d-400', 'no_consumer_use_tax'): p['use_tax'] == 'certify',
            ('nc_d-400_consumer_use_tax_wkst', 'full_records'): p['use_tax'] == 'records',
            ('nc_d-400_ss', 'bonus_depreciation'): self.draw(st.booleans()),
            ('nc_d-400_ss', 'section_179_expense'): self.draw(st.booleans()),
            ('1099-r', 'box_7_ira_sep_simple'): p['ira'] != 'none',
            ('1099-r', 'box_2b_total_distribution'): self.draw(st.booleans()),
            ('1040', 'ira_exception1_you'): p['ira'] == 'rollover',
            ('1040', 'ira_exception1_you_total'): True,
            ('1040', 'ira_exception2_you'): p['ira'] == '8606',
            ('1040', 'ira_exception3_you'): False,
            ('1040', 'ira_exception3_you_total'): True,
            ('1040', 'ira_exception1_spouse'): p['ira'] == 'rollover',
            ('1040', 'ira_exception1_spouse_total'): True,
            ('1040', 'ira_exception2_spouse'): p['ira'] == '8606',
            ('1040', 'ira_exception3_spouse'): False,
            ('1040', 'ira_exception3_spouse_total'): True,
        }
        if (fbase, base) in table:
            return table[(fbase, base)]
        if fbase == '1040' and base.startswith('dependent_') and base.endswith(('_ctc', '_odc')):
            n = int(base.split('_')[1])
            kindd = base.split('_')[2]
            if n < len(p['deps']):
                return p['deps'][n] == kindd
            return False
        return None

    def enum(self, inp, fbase, base):
        p = self.p
        d = self.draw
        if base == 'filing_status':
            return status_name(self.year, p['status'])
        members = list(inp.enum.__members__)
        if base == 'state':
            return 'NC' if 'nc_d-400' in p['forms'] or d(st.booleans()) else d(st.sampled_from(members))
        if base == 'belongs_to' and fbase == '1099-r' and p.get('both_spouses_1099r') and 'spouse' in members:
            n_seen = self.memo.get('r_owner', 0)
            self.memo['r_owner'] = n_seen + 1
            return 'spouse' if n_seen % 2 else 'taxpayer'
        if base == 'belongs_to':
            if p['status'] == 'MarriedFilingJointly' and 'spouse' in members and d(st.integers(0, 2)) == 0:
                return 'spouse'
            return 'taxpayer'
        if p.get('nc_withholding') and 'NC' in members and ('state' in base or base.startswith(('box_15', 'box_14', 'box_10a'))):
            return 'NC'
        if base.startswith('box_12') and base.endswith('_code'):
            return '' if d(st.integers(0, 3)) else d(st.sampled_from(['D', 'DD', 'AA', 'E', 'C', 'N']))
        if inp.allow_empty and d(st.booleans()):
            return ''
        if 'NC' in members:
            return 'NC' if d(st.booleans()) else d(st.sampled_from(members))
        return d(st.sampled_from(members))

    def integer(self, fbase, inst, base):
        p = self.p
        d = self.draw
        nctc = sum(1 for x in p['deps'] if x == 'ctc')
        table = {
            'number_dependents': len(p['deps']),
            'number_w-2': p['n_w2'], 'number_1099-int': p['n_int'], 'number_1099-div': p['n_div'],
            'number_1099-r': p['n_r'], 'number_1099-g': p['n_g'], 'number_1098': p['n_1098'],
            'number_1099-oid': 0,
            'number_under_17': nctc, 'number_under_18': nctc,
            'number_under_6': d(st.integers(0, nctc)) if nctc else 0,
            'number_children_letter': nctc,
            'box_3': self.year - 1 if fbase == '1099-g' else 0,
            'box_9': 1,
            'year_spouse_died': self.year - 1,
        }
        if base in table:
            return table[base]
        return d(st.integers(0, 2))

    def float_amount(self, fbase, inst, base, g):
        p = self.p
        d = self.draw
        wl, wh = WAGES[p['wage_level']]
        share = p['withhold_share']
        if fbase == 'w-2':
            if base == 'box_1':
                n = max(1, p['n_w2'])
                w = money(d, wl / n, wh / n)
                if p.get('big_dividends'):
                    w = money(d, 0, 15000)
                self.memo[('wage', inst)] = w
                return w
            w = self.memo.get(('wage', inst), (wl + wh) / 2)
            if base in ('box_3', 'box_5', 'box_16'):
                return w if d(st.booleans()) else round(w * 0.9, 2)
            if base == 'box_2':
                return round(w * share, 2)
            if base == 'box_4':
                return round(min(w, 160200) * 0.062, 2)
            if base == 'box_6':
                return round(w * 0.0145, 2)
            if base == 'box_17':
                return round(w * 0.04, 2) if d(st.booleans()) else 0.0
            if base.startswith('box_12') and base.endswith('_value'):
                return self.amount(0, 5000)
            return 0.0
        if fbase == '1099-int':
            if base == 'box_1':
                if p.get('huge_interest'):
                    return money(d, 4000, 15000)
                return self.amount(0, 4000 if p['big_interest'] else 700)
            if base == 'box_3':
                return self.amount(0, 500)
            if base == 'box_4':
                return self.amount(0, 200)
            if base == 'box_6':
                if p.get('huge_interest'):
                    return money(d, 20, 95)
                return self.amount(0, 120) if p['foreign_tax'] else 0.0
            if base == 'box_8':
                return self.amount(0, 1000)
            if base == 'box_2':
                return self.amount(0, 100)
            return 0.0
        if fbase == '1099-div':
            if base == 'box_1a':
                x = self.amount(0, 5000 if p['big_interest'] else 700)
                if p.get('big_dividends'):
                    x = money(d, 20000, 90000)       # an investor: dividends are most of the income
                self.memo[('div', inst)] = x
                return x
            if base == 'box_1b':
                return round(self.memo.get(('div', inst), 0.0) * d(st.sampled_from([0, 0.5, 1.0] if not p.get('big_dividends') else [0.5, 1.0, 1.0])), 2)
            if base == 'box_2a':
                return self.amount(0, 3000)
            if base == 'box_4':
                return self.amount(0, 200)
            if base == 'box_5':
                return self.amount(0, 300, zero_ok=False) if p['s199a'] else 0.0
            if base == 'box_7':
                return self.amount(0, 120) if p['foreign_tax'] else 0.0
            if base == 'box_12':
                return self.amount(0, 500)
            return 0.0
        if fbase == '1099-r':
            if base == 'box_1':
                x = self.amount(100, 30000, zero_ok=False)
                self.memo[('r', inst)] = x
                return x
            if base == 'box_2a':
                return round(self.memo.get(('r', inst), 0.0) * d(st.sampled_from([0, 0.5, 1.0])), 2)
            if base == 'box_4':
                return round(self.memo.get(('r', inst), 0.0) * 0.1, 2) if d(st.booleans()) else 0.0
            if base in ('box_14_1',):
                if p.get('nc_withholding'):
                    return money(d, 50, 900)
                return self.amount(0, 500)
            return 0.0
        if fbase == '1099-g':
            if base == 'box_1':
                return self.amount(0, 8000)
            if base == 'box_2':
                return self.amount(0, 1500)
            if base == 'box_4':
                return self.amount(0, 500)
            return 0.0
        if fbase == '1098':
            if base == 'box_1':
                return self.amount(500, 15000, zero_ok=False)
            if base == 'box_2':
                return self.amount(50000, 400000, zero_ok=False)
            if base == 'box_6':
                return self.amount(0, 2000)
            if base == 'box_4':
                # refund of overpaid interest: usually small, sometimes larger than this year's interest
                if p.get('big_1098_refund'):
                    return money(d, 16000, 40000)
                return self.amount(0, 300) if d(st.integers(0, 7)) else self.amount(300, 25000)
            if base == 'box_5':
                return self.amount(0, 1500)
            return 0.0
        if fbase == '8889':
            limit = {2021: 3600, 2022: 3650, 2023: 3850}[self.year]
            if base == 'employer_contribution':
                x = self.amount(0, 1500)
                self.memo[('hsa_emp', inst)] = x
                return x
            if base == 'hsa_contributions':
                return self.amount(0, limit - 1500)
            return 0.0
        if fbase == '8606':
            if base == 'nondeductible_contributions':
                return self.amount(1000, 6000, zero_ok=False)
            if base == 'traditional_basis':
                return self.amount(0, 20000)
            if base == 'nondeductible_contributions_next_year':
                return self.amount(0, 900)
            if base == 'year_end_value_non_roth':
                if p.get('ira_lost_value'):
                    return self.amount(0, 3000)         # the account fell below its basis
                return self.amount(30000, 200000, zero_ok=False)
            if base.startswith('distributions_'):
                if p.get('ira_lost_value'):
                    return self.amount(100, 1500, zero_ok=False)
                return self.amount(100, 20000, zero_ok=False)
            if base == 'net_converted':
                return self.amount(0, 5000)
            if base == 'converted_cost_basis':
                return 0.0
            return 0.0
        if fbase == '1040':
            if base in ('non_w-2_household_employee_income', 'non_w-2_tip_income', 'non_w-2_medicaid_waiver', 'other_earned_income'):
                return self.amount(0, 3000) if d(st.integers(0, 3)) == 0 else 0.0
            if base == 'estimated_tax_payments':
                return self.amount(0, 20000)
            if base == 'other_federal_withholding':
                return self.amount(0, 3000)
            if base == 'apply_to_estimated_tax':
                return self.amount(0, 2000)
            if base == 'tax_penalty':
                return self.amount(0, 300)
            if base == 'charitable_contributions_std_ded':
                return self.amount(0, 600)
            return 0.0
        if fbase == '1040_s1':
            if base == 'educator_expenses':
                return self.amount(0, 250)
            if base in ('alimony_received', 'unemployment_income', 'other_income_amount', 'state_local_income_tax'):
                return self.amount(0, 6000)
            if base in ('alimony_paid', 'traditional_ira_deduction', 'other_adjustments_amount'):
                return self.amount(0, 4000)
            return self.amount(0, 1000)
        if fbase == '1040_sa':
            if base == 'medical_dental_expenses':
                return self.amount(0, 30000)
            if base in ('state_local_real_estate_taxes', 'state_local_personal_property_taxes', 'other_taxes_amount'):
                return self.amount(0, 6000)
            if base in ('charitable_cash_check',):
                return self.amount(0, 15000)
            if base == 'charitable_other_than_cash_check':
                return self.amount(0, 450)
            return self.amount(0, 3000)
        if fbase == 'nc_d-400':
            if base in ('estimated_tax', 'paid_with_extension'):
                return self.amount(0, 3000)
            return 0.0
        if fbase == 'nc_d-400_consumer_use_tax_wkst':
            if base == 'out_of_state_purchases':
                if p.get('small_purchases'):
                    return self.amount(0, 400)      # so that the sales tax paid elsewhere can exceed the N.C. use tax due
                return self.amount(0, 5000)
            if base == 'county_tax_pct':
                return d(st.sampled_from([0.07, 0.0725, 0.075, 0.0675]))
            if base == 'other_state_sales_tax':
                return self.amount(0, 50)
        if fbase == '1040_recovery_rebate_credit_wkst' and base.startswith('eip'):
            # third economic impact payment received: none, the usual multiples of $1,400, or any amount (also more than the credit)
            k_ = d(st.integers(0, 5))
            return 0.0 if k_ == 0 else (self.amount(0, 7000) if k_ == 1 else 1400.0 * d(st.integers(1, 5)))
        if fbase == 'nc_d-400_ss':
            return self.amount(0, 2500) if d(st.integers(0, 4)) == 0 else 0.0
        if fbase == 'nc_d-400_sa':
            return self.amount(0, 1000)
        if g is not None and g.get('amount'):
            return 0.0
        return self.amount(0, 1000)

    def text(self, fbase, base):
        d = self.draw
        if 'zip' in base:
            return d(st.sampled_from(['27701', '27514-1234', '10001']))
        if 'phone' in base:
            return d(st.sampled_from(['919-555-0100', '(919) 555 0100', '9195550100']))
        if 'email' in base:
            return 'jane@example.org'
        if 'county' in base:
            return d(st.sampled_from(['Durham', 'Wake', 'Orange']))
        if base in ('apartment_no',):
            return d(st.sampled_from(['', '4B', '12']))
        if 'middle_initial' in base:
            return d(st.sampled_from(['', 'Q', 'x', 'N', 'e']))
        if 'foreign' in base:
            return ''
        if base == 'box_20':
            return ''
        return d(st.sampled_from(['Jane', 'Doe', 'Public', 'Acme Corp', '12 Main St', 'engineer', 'Child One',
                                  'son', 'Mary Ann', "O'Neil", 'First Bank', 'x', 'Unit #12', '5 Elm St ;rear', '#7', 'No', 'None', 'on', 'Smith-Jones', 'Reading "coach"', '"Central Office"', "'quoted'"]))


# ---------------------------------------------------------------------------
# build a scenario

def build(persona, draw, initial=None):
    """run the real solver with answer-on-demand; returns
    {'year','forms','inputs': {name: text}, 'persona', 'asked': n, 'verdict'/'abort'}"""
    year = persona['year']
    classes = hforms.available_forms[year]
    cp = solve.config_from_dict(initial or {})
    policy = Policy(persona, draw)
    invalid = []

    def answer_fn(missing, needed_by):
        text = policy.answer(missing)
        if not missing.valid(text) or '%' in text:
            invalid.append((missing.name(), text))
            text = fallback(missing)
        return text

    r = solve.run(classes, persona['forms'], cp, answer_fn=answer_fn, want_solution=False)
    sc = {'year': year, 'forms': list(persona['forms']), 'inputs': solve.config_to_dict(cp),
          'persona': {k: v for k, v in persona.items()}, 'asked': len(r.trace.prompts),
          'verdict': r.verdict, 'abort': (type(r.exc).__name__ + ': ' + str(r.exc)[:120]) if r.exc is not None else None,
          'policy_invalid': invalid}
    return sc, r


def fallback(inp):
    k = catalog.input_kind(inp)
    if k == 'bool':
        return 'no'
    if k in ('int', 'float'):
        return '0'
    if k == 'enum':
        return '' if inp.allow_empty else list(inp.enum.__members__)[0]
    if k == 'ssn':
        return '123456789'
    if k == 'regex':
        return '021000021' if 'routing' in inp.base_name() else '12345678'
    return 'x'


def resolve(scenario, answer_fn=None, schedule=None, inputs=None, forms=None, want_solution=True):
    """re-run a scenario in file mode (or with a prompt) against the real solver"""
    classes = hforms.available_forms[scenario['year']]
    cp = solve.config_from_dict(inputs if inputs is not None else scenario['inputs'])
    return solve.run(classes, forms if forms is not None else scenario['forms'], cp,
                     answer_fn=answer_fn, schedule=schedule, want_solution=want_solution)


def slim(scenario):
    """what goes into a replay file"""
    return {'year': scenario['year'], 'forms': scenario['forms'], 'inputs': scenario['inputs']}
