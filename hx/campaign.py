"""Shared campaign over generated form programs (used by C01, C03, C04, C05,
C06, C13): generate -> run through the real solver (optionally under a drawn
schedule) -> compare with reference model / closure / bounds -> record the
discrepancies that belong to the calling property."""
from hypothesis import strategies as st

from hx import hyp, progcheck, progs, solve


def run_case(ctx, props, program, sched_desc=None, label_rule=None, extra_check=None):
    sched = solve.Schedule(**sched_desc) if sched_desc else None
    r = progcheck.run_program(program, schedule=sched)
    m = progs.model(program)
    ctx.case()
    labels = progcheck.classify(program, r, m)
    for l in labels:
        ctx.count('class:' + l)
    case = {'program': program, 'schedule': sched.describe() if sched else None}
    for prop, bucket, msg in progcheck.check(program, r, m):
        if prop in props:
            ctx.violation('prog:' + bucket, msg, case)
        else:
            ctx.count('other-property-discrepancy:' + prop)
    if isinstance(r.exc, solve.LoopBudgetExceeded) and 'C06' in props:
        ctx.violation('prog:loop-does-not-terminate', f'the solve loop keeps polling without making progress ({r.exc}); prompts so far: {r.trace.prompts[-3:]}', case)
    if isinstance(r.exc, progs.BudgetExceeded) and 'C06' in props:
        ctx.violation('prog:budget-exceeded', f'more than {r.counters.limit} line evaluations: the solve does not terminate within its step bound', case)
    if extra_check is not None:
        extra_check(ctx, program, r, m, case)
    if label_rule is None or label_rule(labels, program, r, m):
        ctx.nt({'p': program, 's': case['schedule']})
    return r, m, labels


def shard(ctx, k, payload):
    props, n, seed, bad_refs, scheduled, rule_name = payload
    rule = RULES.get(rule_name)

    def body(data):
        program = data.draw(progs.programs(bad_refs=bad_refs))
        sd = None
        if scheduled:
            sd = {'seed': data.draw(st.integers(0, 2 ** 32)), 'mode': data.draw(st.sampled_from(['random', 'random', 'random', 'reverse', 'identity']))}
        r, m, labels = run_case(ctx, props, program, sched_desc=sd, label_rule=rule)
        if len(ctx.samples) < 3 and labels & {'line_waited', 'blocked', 'ni_evaluated'}:
            ctx.sample({'program': program, 'labels': sorted(labels),
                        'verdict': r.verdict, 'abort': repr(r.exc) if r.exc else None,
                        'solution': {k_: v_ for k_, v_ in sorted(r.values.items())[:8]}})
    hyp.run_data(body, n, seed)


RULES = {
    'c01': lambda labels, p, r, m: bool(labels & {'ni_evaluated', 'missing_after_success', 'blocked_depth2', 'late_form', 'refusal_after_answer'}),
    'c03': lambda labels, p, r, m: bool(labels & {'line_waited'}),
    'c04': lambda labels, p, r, m: 'solved' in labels and any(not l['required'] for f in p['forms'] for l in f['lines']),
    'c06': lambda labels, p, r, m: bool(labels & {'cycle', 'line_waited_twice', 'refusal', 'refusal_after_answer'}),
    'any': None,
}


def campaign(ctx, props, n, bad_refs_share=0.0, scheduled=False, rule='any', shards=None):
    shards = shards or (4 if ctx.tier == 'quick' else 16)
    per = max(1, n // shards)
    payloads = []
    for k in range(shards):
        bad = (k < round(shards * bad_refs_share))
        payloads.append((tuple(props), per, ctx.seed * 1000 + k, bad, scheduled, rule))
    hyp.pmap(ctx, shard, payloads)


def replay_case(ctx, props, case):
    run_case(ctx, props, case['program'], sched_desc=case.get('schedule'))
