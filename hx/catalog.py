"""Catalogue introspection: instantiate every form class of a year for every
allowed instance with a stub solver and expose inputs / lines / types."""
import habutax.fields as hf
import habutax.form as hform
import habutax.forms as hforms
import habutax.inputs as hi

YEARS = sorted(hforms.available_forms.keys())
NUMBERED = 3   # default number of numbered copies instantiated for InputForms


class StubSolver(object):
    """what a line definition may reach through s.form(name)"""
    def __init__(self):
        self.forms = {}


def classes(year):
    return list(hforms.available_forms[year])


def class_map(year):
    return {c.form_name: c for c in classes(year)}


def is_input_form(cls):
    return issubclass(cls, hform.InputForm)


def instances_of(cls, numbered=NUMBERED):
    if hasattr(cls, 'valid_instances'):
        return list(cls.valid_instances)
    if is_input_form(cls):
        return [str(n) for n in range(numbered)]
    return [None]


class Catalogue(object):
    def __init__(self, year, numbered=NUMBERED):
        self.year = year
        self.solver = StubSolver()
        self.forms = {}      # full name -> form instance
        self.errors = {}     # full name -> exception on instantiation
        self.inputs = {}     # full input name -> Input
        self.lines = {}      # full line name -> Field
        self.required = set()
        self.cmap = class_map(year)
        for cls in classes(year):
            for inst in instances_of(cls, numbered):
                self._add(cls, inst)

    def _add(self, cls, inst):
        name = cls.form_name if inst is None else f'{cls.form_name}:{inst}'
        try:
            f = cls(solver=self.solver, instance=inst)
        except Exception as e:  # reported by C17
            self.errors[name] = e
            return None
        self.forms[f.name()] = f
        self.solver.forms[f.name()] = f
        for i in f.inputs():
            self.inputs[i.name()] = i
        for l in f.fields():
            self.lines[l.name()] = l
        for l in f.required_fields():
            self.required.add(l.name())
        return f

    def ensure(self, full_form_name):
        """instantiate another numbered copy on demand; returns form or None"""
        if full_form_name in self.forms:
            return self.forms[full_form_name]
        base, inst = hform.name_and_instance(full_form_name)
        cls = self.cmap.get(base)
        if cls is None:
            return None
        if hasattr(cls, 'valid_instances') and inst not in cls.valid_instances:
            return None
        if not hasattr(cls, 'valid_instances') and not is_input_form(cls) and inst is not None:
            return None
        if is_input_form(cls) and inst is not None and not inst.isdigit():
            return None
        return self._add(cls, inst)


def input_kind(i):
    t = type(i)
    if t is hi.BooleanInput:
        return 'bool'
    if t is hi.IntegerInput:
        return 'int'
    if t is hi.FloatInput:
        return 'float'
    if t is hi.EnumInput:
        return 'enum'
    if t is hi.RegexInput:
        return 'regex'
    if t is hi.SSNInput:
        return 'ssn'
    if t is hi.StringInput:
        return 'str'
    return t.__name__


def line_kind(l):
    t = type(l)
    if t is hf.BooleanField:
        return 'bool'
    if t is hf.IntegerField:
        return 'int'
    if t is hf.FloatField:
        return 'float'
    if t is hf.EnumField:
        return 'enum'
    if t is hf.StringField:
        return 'str'
    return t.__name__


_CACHE = {}


def get(year, numbered=NUMBERED):
    key = (year, numbered)
    if key not in _CACHE:
        _CACHE[key] = Catalogue(year, numbered)
    return _CACHE[key]
