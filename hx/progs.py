"""Generated form programs (small catalogues of real habutax Form classes whose
line definitions interpret generated expression trees) and an independent
reference model of what solving them must produce.

A program is plain JSON:
  {'forms': [{'name', 'kind': plain|numbered|named|inputform, 'instances': [...],
              'inputs': [{'name','type'}], 'lines': [{'name','required','expr'}]}],
   'request': [full form names], 'file': {input full name: text},
   'prompt': {'mode': none|total|refuse, 'k': int, 'answers': {input: text}}}
Expressions: ['lit', x] ['in', name] ['val', name] ['if', c, a, b] ['add', a, b]
             ['none'] ['ni'] ['cnt', input_name, form, line]
"""
import json
import math

from hypothesis import strategies as st

import habutax.fields as hf
import habutax.form as hform
import habutax.inputs as hi

LINE_POOL = ['1', '1a', '2', '2b', '3', '10', 'wk_3', 'x', '1_a', '02']   # '1_a'/'1a' and '02'/'2' have equal natural-sort keys
INPUT_POOL = ['n', 'a', 'b', 'flag']
FORM_POOL = ['fa', 'fb', 'fc', 'fd']
PLACES = 2

# spellings with their independent meaning: (text, valid, value)
SPELL = {
    'int': [('0', True, 0), ('1', True, 1), ('2', True, 2), ('3', True, 3), (' 2 ', True, 2), ('+1', True, 1),
            ('', True, 0), ('x', False, None), ('1.5', False, None)],
    'float': [('0', True, 0.0), ('2.5', True, 2.5), ('1e2', True, 100.0), ('', True, 0.0), (' 7', True, 7.0),
              ('-3.25', True, -3.25), ('0.005', True, 0.005), ('abc', False, None), ('1,000', False, None)],
    'bool': [('yes', True, True), ('No', True, False), ('TRUE', True, True), ('0', True, False), ('on', True, True),
             ('maybe', False, None), ('', False, None)],
}


DEFAULT_ANSWER = {'int': '1', 'float': '2.5', 'bool': 'yes'}


def spell_value(typ, text):
    for t, ok, val in SPELL[typ]:
        if t == text:
            return ok, val
    raise KeyError((typ, text))


# ---------------------------------------------------------------------------
# building real habutax forms from a program

class BudgetExceeded(BaseException):
    """raised from inside a generated line when the deterministic evaluation
    budget is exhausted (step bound, never wall clock)"""


class Counters(object):
    def __init__(self, limit=20000):
        self.limit = limit
        self.total = 0
        self.evals = {}       # line full name -> evaluations started
        self.order = []       # sequence of line full names evaluated
        self.seen = {}        # line full name -> list of (kind, key, value) reads that succeeded


def _interp(expr, s, i, v, reads):
    op = expr[0]
    if op == 'lit':
        return expr[1]
    if op == 'in':
        val = i[expr[1]]
        reads.append(('i', expr[1], val))
        return val
    if op == 'val':
        val = v[expr[1]]
        reads.append(('v', expr[1], val))
        return val
    if op == 'inget':
        val = i.get(expr[1], expr[2])          # Mapping protocol on the inputs accessor
        reads.append(('i', expr[1], val))
        return val
    if op == 'inhas':
        val = expr[1] in i
        reads.append(('i', expr[1], val))
        return 1 if val else 0
    if op == 'get':
        val = v.get(expr[1], expr[2])          # Mapping protocol on the values accessor
        reads.append(('v', expr[1], val))
        return val
    if op == 'has':
        val = expr[1] in v
        reads.append(('v', expr[1], val))
        return 1 if val else 0
    if op == 'if':
        c = _interp(expr[1], s, i, v, reads)
        if c is not None and c != 0:
            return _interp(expr[2], s, i, v, reads)
        return _interp(expr[3], s, i, v, reads)
    if op == 'add':
        a = _interp(expr[1], s, i, v, reads)
        b = _interp(expr[2], s, i, v, reads)
        return (0 if a is None else a) + (0 if b is None else b)
    if op == 'none':
        return None
    if op == 'ni':
        s.not_implemented()
    if op == 'cnt':
        n = i[expr[1]]
        reads.append(('i', expr[1], n))
        tot = 0
        for k in range(n):
            key = f'{expr[2]}:{k}.{expr[3]}'
            val = v[key]
            reads.append(('v', key, val))
            tot += val
        return tot
    raise ValueError(op)


def make_input(spec):
    t = spec['type']
    if t == 'int':
        return hi.IntegerInput(spec['name'], description='generated')
    if t == 'float':
        return hi.FloatInput(spec['name'], description='generated')
    return hi.BooleanInput(spec['name'], description='generated')


def build_classes(program, counters=None):
    """returns list of Form classes implementing the program"""
    classes = []
    for fs in program['forms']:
        classes.append(_build_class(fs, counters))
    return classes


def _build_class(fs, counters):
    kind = fs['kind']
    base = hform.InputForm if kind == 'inputform' else hform.Form

    def __init__(self, **kwargs):
        if kind == 'named':
            assert kwargs.get('instance') in fs['instances']
        inputs = [make_input(x) for x in fs['inputs']]
        if kind == 'inputform':
            hform.InputForm.__init__(self, type(self), inputs, **kwargs)
            return
        req, opt = [], []
        for ls in fs['lines']:
            def fn(s, i, v, expr=ls['expr']):
                name = s.name()
                reads = []
                if counters is not None:
                    counters.total += 1
                    if counters.total > counters.limit:
                        raise BudgetExceeded(name)
                    counters.evals[name] = counters.evals.get(name, 0) + 1
                    counters.order.append(name)
                try:
                    out = _interp(expr, s, i, v, reads)
                finally:
                    if counters is not None:
                        counters.seen.setdefault(name, []).append(reads)
                return None if out is None else float(out)
            f = hf.FloatField(ls['name'], fn, places=PLACES)
            (req if ls['required'] else opt).append(f)
        hform.Form.__init__(self, type(self), inputs, req, opt, **kwargs)

    attrs = {'form_name': fs['name'], 'tax_year': 2099, 'description': 'Generated ' + fs['name'],
             'long_description': 'generated form program', 'jurisdiction': hform.Jurisdiction.US,
             '__init__': __init__, 'needs_filing': lambda self, values: False}
    if kind == 'named':
        attrs['valid_instances'] = list(fs['instances'])
    return type('Gen_' + fs['name'], (base,), attrs)


# ---------------------------------------------------------------------------
# independent reference model (Kleene fixed point)

class Abort(Exception):
    pass


class _NeedLine(Exception):
    def __init__(self, name):
        self.name = name


class _NeedInput(Exception):
    def __init__(self, name):
        self.name = name


class _NotImpl(Exception):
    pass


def split_form(full):
    parts = full.split(':')
    if len(parts) == 1:
        return parts[0], None
    if len(parts) == 2:
        return parts[0], parts[1]
    raise Abort(f'malformed form name {full}')


def model(program):
    """returns dict: abort(bool), verdict, solution{line: float}, unimplemented(set),
    missing{input: set(lines)}, blocked{line: set(lines)}, asked(list, total/none prompt only),
    forms(set of full form names), unique(bool)"""
    fspecs = {f['name']: f for f in program['forms']}
    known = dict(program['file'])          # input full name -> text
    prompt = program['prompt']
    answers = prompt.get('answers', {})
    loaded = {}                            # full form name -> spec (fully added)
    demanded = []                          # ordered, unique
    values = {}
    unimpl = set()
    asked = []
    refused = [prompt['mode'] == 'none']

    def load(full):
        base, inst = split_form(full)
        if base not in fspecs:
            raise Abort(f'Form {base} is not supported.')
        fs = fspecs[base]
        if fs['kind'] == 'named' and inst not in fs['instances']:
            raise Abort('bad instance')
        if full in loaded:
            return fs
        loaded[full] = fs
        for name, required in lines_of(fs):
            if required:
                demand(f'{full}.{name}')
        return fs

    def lines_of(fs):
        if fs['kind'] == 'inputform':
            return [(x['name'], True) for x in fs['inputs']]
        return [(l['name'], l['required']) for l in fs['lines']]

    def demand(line):
        if line not in demanded:
            demanded.append(line)

    def qualify(owner, name):
        return name if '.' in name else f'{owner}.{name}'

    def input_spec(full_input):
        if full_input.count('.') != 1:
            raise Abort('malformed input name')
        form, base = full_input.split('.')
        fb, inst = split_form(form)
        if fb not in fspecs:
            raise Abort(f'Form {fb} is not supported.')
        fs = fspecs[fb]
        if fs['kind'] == 'named' and inst not in fs['instances']:
            raise Abort('bad instance')
        for x in fs['inputs']:
            if x['name'] == base:
                return x
        raise Abort(f'unknown input {full_input}')

    def read_input(owner, name):
        full = qualify(owner, name)
        spec = input_spec(full)
        if full not in known:
            raise _NeedInput(full)
        ok, val = spell_value(spec['type'], known[full])
        if not ok:
            raise Abort(f'Invalid Input: {full}')
        return val

    def read_line(owner, name):
        full = qualify(owner, name)
        if full in values:
            return values[full]
        raise _NeedLine(full)

    def line_spec(full_line):
        if full_line.count('.') != 1:
            raise Abort('malformed line name')
        form, base = full_line.split('.')
        fs = load(form)
        for name, _ in lines_of(fs):
            if name == base:
                return fs, base
        raise Abort(f'unknown line {full_line}')

    def ev(expr, owner):
        op = expr[0]
        if op == 'lit':
            return expr[1]
        if op == 'in':
            return read_input(owner, expr[1])
        if op == 'val':
            return read_line(owner, expr[1])
        if op == 'inget':
            return read_input(owner, expr[1])
        if op == 'inhas':
            read_input(owner, expr[1])
            return 1
        if op == 'get':
            # a line read through .get() is a read like any other: an unknown line is demanded, never defaulted
            return read_line(owner, expr[1])
        if op == 'has':
            read_line(owner, expr[1])
            return 1
        if op == 'if':
            c = ev(expr[1], owner)
            return ev(expr[2], owner) if (c is not None and c != 0) else ev(expr[3], owner)
        if op == 'add':
            a = ev(expr[1], owner)
            b = ev(expr[2], owner)
            return (0 if a is None else a) + (0 if b is None else b)
        if op == 'none':
            return None
        if op == 'ni':
            raise _NotImpl()
        if op == 'cnt':
            n = read_input(owner, expr[1])
            tot = 0
            for k in range(n):
                tot += read_line(owner, f'{expr[2]}:{k}.{expr[3]}')
            return tot
        raise ValueError(op)

    def evaluate(line):
        form, base = line.split('.')
        fs = loaded[form]
        if fs['kind'] == 'inputform':
            out = read_input(form, base)
            typ = [x['type'] for x in fs['inputs'] if x['name'] == base][0]
            if typ == 'float':
                return round(float(out), 2)
            return out
        expr = [l['expr'] for l in fs['lines'] if l['name'] == base][0]
        out = ev(expr, form)
        if out is None:
            return 0.0
        return round(float(out), PLACES)

    result = {'abort': False, 'unique': prompt['mode'] != 'refuse'}
    try:
        for full in program['request']:
            load(full)
        changed = True
        while changed:
            changed = False
            for line in list(demanded):
                if line in values or line in unimpl:
                    continue
                try:
                    values[line] = evaluate(line)
                    changed = True
                except _NeedLine as nl:
                    before = len(demanded)
                    line_spec(nl.name)          # loads the form / aborts on bad reference
                    demand(nl.name)
                    if len(demanded) != before:
                        changed = True
                except _NeedInput as ni:
                    if not refused[0] and ni.name not in known:
                        if prompt['mode'] == 'refuse' and len(asked) >= prompt['k']:
                            refused[0] = True
                        else:
                            known[ni.name] = answers.get(ni.name, DEFAULT_ANSWER[input_spec(ni.name)['type']])
                            asked.append(ni.name)
                            changed = True
                except _NotImpl:
                    unimpl.add(line)
                    changed = True
        missing, blocked = {}, {}
        for line in demanded:
            if line in values or line in unimpl:
                continue
            try:
                evaluate(line)
                raise AssertionError('model: fixed point not reached')
            except _NeedLine as nl:
                blocked.setdefault(nl.name, set()).add(line)
            except _NeedInput as ni:
                missing.setdefault(ni.name, set()).add(line)
    except Abort as a:
        result['abort'] = True
        result['abort_msg'] = str(a)
        return result
    result.update(verdict=not (unimpl or missing or blocked), solution=values, unimplemented=unimpl,
                  missing=missing, blocked=blocked, asked=asked, forms=set(loaded),
                  demanded=list(demanded))
    return result


# ---------------------------------------------------------------------------
# generator

@st.composite
def programs(draw, bad_refs=False, max_forms=4, prompt_modes=('none', 'total', 'refuse')):
    nforms = draw(st.integers(1, max_forms))
    names = FORM_POOL[:nforms]
    forms = []
    for name in names:
        kind = draw(st.sampled_from(['plain', 'plain', 'numbered', 'named', 'inputform']))
        if name == names[0]:
            kind = 'plain'
        ninp = draw(st.integers(1 if kind == 'inputform' else 0, 3))
        inames = draw(st.permutations(INPUT_POOL))[:ninp]
        inputs = []
        for n_ in inames:
            typ = 'int' if n_ == 'n' else ('bool' if n_ == 'flag' else draw(st.sampled_from(['float', 'int'])))
            inputs.append({'name': n_, 'type': typ})
        f = {'name': name, 'kind': kind, 'instances': ['you', 'spouse'] if kind == 'named' else [],
             'inputs': inputs, 'lines': []}
        if kind != 'inputform':
            nlines = draw(st.integers(1, 4))
            lnames = draw(st.permutations(LINE_POOL))[:nlines]
            f['lines'] = [{'name': ln, 'required': draw(st.booleans()), 'expr': None} for ln in lnames]
        forms.append(f)

    def inst_names(f):
        if f['kind'] == 'plain':
            return [f['name']]
        if f['kind'] == 'named':
            return [f'{f["name"]}:you', f'{f["name"]}:spouse']
        return [f'{f["name"]}:0', f'{f["name"]}:1']

    all_line_refs, all_input_refs = [], []
    for f in forms:
        lines = [x['name'] for x in f['inputs']] if f['kind'] == 'inputform' else [l['name'] for l in f['lines']]
        for full in inst_names(f):
            all_line_refs += [f'{full}.{ln}' for ln in lines]
            all_input_refs += [f'{full}.{x["name"]}' for x in f['inputs']]

    def expr(owner, depth):
        local_lines = [l['name'] for l in owner['lines']]
        local_inputs = [x['name'] for x in owner['inputs']]
        leaves = [st.builds(lambda x: ['lit', x], st.sampled_from([0, 1, 2.5, 100, 0.005, -4]))]
        if local_inputs:
            leaves.append(st.builds(lambda n_: ['in', n_], st.sampled_from(local_inputs)))
        if local_lines:
            leaves.append(st.builds(lambda n_: ['val', n_], st.sampled_from(local_lines)))
        if all_line_refs:
            leaves.append(st.builds(lambda n_: ['val', n_], st.sampled_from(all_line_refs)))
        if all_input_refs:
            leaves.append(st.builds(lambda n_: ['in', n_], st.sampled_from(all_input_refs)))
        leaves.append(st.just(['none']))
        leaves.append(st.just(['ni']))
        if local_inputs or all_input_refs:
            pool_ = sorted(set(local_inputs) | set(all_input_refs))
            leaves.append(st.builds(lambda n_, d_: ['inget', n_, d_], st.sampled_from(pool_), st.sampled_from([0, 7])))
            leaves.append(st.builds(lambda n_: ['inhas', n_], st.sampled_from(pool_)))
        if all_line_refs:
            leaves.append(st.builds(lambda n_, d_: ['get', n_, d_], st.sampled_from(all_line_refs), st.sampled_from([0, 7])))
            leaves.append(st.builds(lambda n_: ['has', n_], st.sampled_from(all_line_refs)))
        counts = [(x['name'], f2) for x in owner['inputs'] if x['type'] == 'int'
                  for f2 in forms if f2['kind'] in ('numbered', 'inputform')]
        if counts:
            def mk(c):
                iname, f2 = c
                lines = [x['name'] for x in f2['inputs']] if f2['kind'] == 'inputform' else [l['name'] for l in f2['lines']]
                return ['cnt', iname, f2['name'], lines[0]] if lines else ['none']
            leaves.append(st.sampled_from(counts).map(mk))
        if bad_refs:
            leaves.append(st.sampled_from([['val', 'zz.1'], ['val', f'{owner["name"]}.nope'], ['in', 'nope'],
                                           ['in', 'zz.n'], ['val', 'fb:bogus.1'], ['val', 'fa.1.2']]))
        leaf = st.one_of(*leaves)
        if depth <= 0:
            return draw(leaf)
        k = draw(st.integers(0, 3))
        if k == 0:
            return draw(leaf)
        if k == 1:
            return ['add', expr(owner, depth - 1), expr(owner, depth - 1)]
        if k == 2:
            return ['if', expr(owner, depth - 1), expr(owner, depth - 1), expr(owner, depth - 1)]
        return draw(leaf)

    for f in forms:
        for l in f['lines']:
            l['expr'] = expr(f, draw(st.integers(0, 2)))

    # twin lines: a second line whose name has the same natural-sort key ('2'/'02', '1a'/'1_a') and the
    # same definition, so both wait for and are released by the same things in the same round
    for f in forms:
        if f['lines'] and draw(st.integers(0, 2)) == 0:
            src = f['lines'][draw(st.integers(0, len(f['lines']) - 1))]
            n_ = src['name']
            twin = ('0' + n_) if n_.isdigit() else (n_[:-1] + '_' + n_[-1] if n_[:-1].isdigit() and n_[-1].isalpha() else None)
            if twin and twin not in [l['name'] for l in f['lines']]:
                # half of the time both wait for the same line of another form (added by reference, so they are blocked
                # at the first attempt and released together)
                others = [ref for ref in all_line_refs if ref.split('.')[0].split(':')[0] != f['name']]
                if others and draw(st.booleans()):
                    src['expr'] = ['add', ['val', draw(st.sampled_from(others))], src['expr']]
                    src['required'] = True
                f['lines'].append({'name': twin, 'required': True, 'expr': json.loads(json.dumps(src['expr']))})
    request = [forms[0]['name']]
    for f in forms[1:]:
        r_ = draw(st.integers(0, 5))
        if r_ == 0:
            request.append(draw(st.sampled_from(inst_names(f))))
        elif r_ == 1:
            request.extend(inst_names(f))
    request = draw(st.permutations(request))

    # inputs: present / absent, mostly valid spellings
    file = {}
    answers = {}
    p_present = draw(st.sampled_from([0, 2, 5, 5, 8]))   # per-program share of inputs present in the file
    for f in forms:
        for full in inst_names(f) + ([f'{f["name"]}:2'] if f['kind'] in ('numbered', 'inputform') else []):
            for x in f['inputs']:
                key = f'{full}.{x["name"]}'
                valid = [t for t, ok, _ in SPELL[x['type']] if ok]
                if x['type'] == 'int':
                    valid = [t for t in valid if t.strip() not in ('3',)] or valid
                answers[key] = draw(st.sampled_from(valid))
                state = draw(st.integers(0, 9))
                if state < p_present:
                    file[key] = draw(st.sampled_from(valid))
                elif state == 9 and p_present:
                    file[key] = draw(st.sampled_from([t for t, ok, _ in SPELL[x['type']]]))
    mode = draw(st.sampled_from(list(prompt_modes)))
    prompt = {'mode': mode, 'k': draw(st.integers(0, 4)) if mode == 'refuse' else 0,
              'answers': answers if mode != 'none' else {}}
    return {'forms': forms, 'request': list(request), 'file': file, 'prompt': prompt}


def has_cycle_or_self(program):
    """cheap syntactic flag used only for the non-triviality accounting"""
    edges = {}
    for f in program['forms']:
        for l in f['lines']:
            src = f'{f["name"]}.{l["name"]}'
            stack = [l['expr']]
            while stack:
                e = stack.pop()
                if e[0] in ('val', 'get', 'has'):
                    tgt = e[1] if '.' in e[1] else f'{f["name"]}.{e[1]}'
                    tgt = tgt.split(':')[0] + '.' + tgt.split('.')[1] if ':' in tgt.split('.')[0] else tgt
                    edges.setdefault(src, set()).add(tgt)
                elif e[0] in ('if', 'add'):
                    stack.extend(x for x in e[1:] if isinstance(x, list))
    seen = {}

    def dfs(n):
        if seen.get(n) == 1:
            return True
        if seen.get(n) == 2:
            return False
        seen[n] = 1
        for m in edges.get(n, ()):
            if dfs(m):
                return True
        seen[n] = 2
        return False
    return any(dfs(n) for n in list(edges))
