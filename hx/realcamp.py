"""Campaign over real returns: persona -> answer-on-demand scenario ->
variant (full file / deleted keys / partial prompt / refusing prompt / gates
flipped / schedule) -> re-solve -> demand-closure oracle."""
from hypothesis import strategies as st

from hx import closure, hyp, scenario, solve


def make_variant(draw, sc, kinds):
    """returns variant dict: inputs (file), prompt {'answers','refuse_at'}, schedule"""
    kind = draw(st.sampled_from(kinds))
    inputs = dict(sc['inputs'])
    v = {'kind': kind, 'year': sc['year'], 'forms': sc['forms'], 'inputs': inputs, 'prompt': None, 'schedule': None}
    keys = sorted(inputs)
    if kind in ('delete', 'prompt_total', 'prompt_refuse') and keys:
        k = draw(st.integers(1, min(8, len(keys))))
        gone = draw(st.lists(st.sampled_from(keys), min_size=k, max_size=k, unique=True))
        answers = {}
        for g in gone:
            answers[g] = inputs.pop(g)
        if kind == 'prompt_total':
            v['prompt'] = {'answers': answers, 'refuse_at': None}
        elif kind == 'prompt_refuse':
            v['prompt'] = {'answers': answers, 'refuse_at': draw(st.integers(0, len(gone)))}
    if kind == 'gates':
        gates = scenario.GATES[str(sc['year'])]
        cands = []
        for key in keys:
            g = gates.get(scenario.norm_key(key))
            if g is not None and not g.get('amount'):
                cands.append((key, g['polarity']))
        if cands:
            n = draw(st.integers(1, min(3, len(cands))))
            for key, pol in draw(st.lists(st.sampled_from(cands), min_size=n, max_size=n, unique=True)):
                inputs[key] = 'yes' if pol else 'no'
                v.setdefault('gates_flipped', []).append(key)
    return v


def answer_fn_for(variant):
    pr = variant['prompt']
    if pr is None:
        return None
    state = {'n': 0}

    def fn(missing, needed_by):
        if pr['refuse_at'] is not None and state['n'] >= pr['refuse_at']:
            return None
        name = missing.name()
        if name not in pr['answers']:
            # an input the original run never needed: answer with the type's neutral text
            state['n'] += 1
            return scenario.fallback(missing)
        state['n'] += 1
        return pr['answers'][name]
    return fn


def run_variant(variant, schedule=None):
    sc = {'year': variant['year'], 'forms': variant['forms'], 'inputs': variant['inputs']}
    sched = solve.Schedule(**variant['schedule']) if variant.get('schedule') else schedule
    return scenario.resolve(sc, answer_fn=answer_fn_for(variant), schedule=sched)


def classify(r):
    labels = set()
    if r.exc is not None:
        labels.add('abort')
        return labels
    labels.add('solved' if r.verdict else 'unsolved')
    counts = r.trace.attempt_counts()
    if any(n >= 2 for n in counts.values()):
        labels.add('line_waited')
    if r.unimplemented:
        labels.add('ni_evaluated')
    if r.unmet_inputs and r.values:
        labels.add('missing_after_success')
    if r.unmet_fields:
        labels.add('blocked')
        deps = set(r.unmet_fields)
        if any(w in deps for ws in r.unmet_fields.values() for w in ws):
            labels.add('blocked_depth2')
    if any(not p[2] for p in r.trace.prompts):
        labels.add('refusal_after_answer' if len(r.trace.prompts) > 1 else 'refusal')
    if any(p[2] for p in r.trace.prompts):
        labels.add('answered')
    return labels


ABORT_OK = ('NotImplementedError', 'InvalidInput')


def check_variant(ctx, props, variant, r):
    """closure oracle on one finished real solve; records discrepancies that
    belong to `props`; returns labels"""
    labels = classify(r)
    case = {'variant': variant}
    if r.exc is not None:
        ctx.count('abort:' + type(r.exc).__name__ + ':' + str(r.exc)[:50])
        return labels, None
    disc, c = closure.compare(r, variant['forms'])
    for prop, bucket, msg in disc:
        if prop in props:
            ctx.violation(f'real:{bucket}', f'{variant["year"]} {variant["forms"]} ({variant["kind"]}): {msg}', case)
        else:
            ctx.count('other-property-discrepancy:' + prop)
    return labels, c
