"""Independent statutory reference for the income-tax schedule (C07).

Written from data/brackets.json (bracket upper ends typed from the Revenue
Procedures) in exact rational arithmetic. Nothing here is imported from
habutax."""
import json
import os
from fractions import Fraction as F

HERE = os.path.dirname(os.path.dirname(os.path.abspath(__file__)))
with open(os.path.join(HERE, 'data', 'brackets.json')) as _f:
    _B = json.load(_f)

RATES = [F(str(r)) for r in _B['rates']]
STATUSES = ['Single', 'MarriedFilingJointly', 'MarriedFilingSeparately', 'HeadOfHousehold', 'QSS']
YEARS = [2021, 2022, 2023]
TABLE_LIMIT = 100000
SUPPORTED_MAX = 10 ** 12


def schedule_status(status):
    return 'MarriedFilingJointly' if status == 'QSS' else status


def uppers(year, status):
    return _B[str(year)][schedule_status(status)]


def formula(year, status, x):
    """exact tax by the rate schedule on taxable income x (Fraction)"""
    x = F(x)
    tax = F(0)
    lo = F(0)
    ups = uppers(year, status) + [None]
    for rate, up in zip(RATES, ups):
        if up is None or x <= up:
            tax += (x - lo) * rate
            return tax
        tax += (F(up) - lo) * rate
        lo = F(up)
    raise AssertionError


def row_of(x):
    """IRS Tax Table row [lo, hi) containing x (0 <= x < 100000)"""
    x = F(x)
    if x < 5:
        return (0, 5)
    if x < 15:
        return (5, 15)
    if x < 25:
        return (15, 25)
    if x < 3000:
        lo = int(x // 25) * 25
        return (lo, lo + 25)
    lo = int(x // 50) * 50
    return (lo, lo + 50)


def all_rows():
    rows = [(0, 5), (5, 15), (15, 25)]
    rows += [(lo, lo + 25) for lo in range(25, 3000, 25)]
    rows += [(lo, lo + 50) for lo in range(3000, TABLE_LIMIT, 50)]
    return rows


def round_half_up(q):
    q = F(q)
    return int((q * 2 + 1) // 2)


def table_tax(year, status, x):
    lo, hi = row_of(x)
    return round_half_up(formula(year, status, F(lo + hi, 2)))


def reference(year, status, x):
    """(expected, tolerance): statutory tax on taxable income x"""
    x = F(x)
    if x < TABLE_LIMIT:
        return F(table_tax(year, status, x)), F(0)
    return formula(year, status, x), F(5, 1000)


def top_rate():
    return RATES[-1]


def boundaries(year, status):
    return list(uppers(year, status)) + [TABLE_LIMIT]
