#!/bin/bash
# usage: tools/mut.sh <check id> <python-expr patch: file old new> ...   (applies to /repo, runs quick check, restores)
# tools/mut.sh C06 habutax/solver.py 'OLD' 'NEW'
id="$1"; file="$2"; old="$3"; new="$4"
cd /repo || exit 2
if [ -n "$(git status --porcelain --untracked-files=no)" ]; then echo "repo dirty"; exit 2; fi
python3 - "$file" "$old" "$new" <<'PY'
import sys
p,old,new=sys.argv[1:4]
s=open(p).read()
if s.count(old)<1: print("PATTERN NOT FOUND"); sys.exit(3)
open(p,'w').write(s.replace(old,new,1))
PY
rc=$?
if [ $rc -ne 0 ]; then git checkout -- .; exit 2; fi
/venv/bin/python -m pytest -q -p no:cacheprovider --continue-on-collection-errors 2>&1 | tail -1
cd /verif
OUT=$(mktemp -d /tmp/hxv_mut.XXXXXX)
for i in $id; do HXV_OUT_DIR="$OUT" ./check $i --tier quick 2>&1 | grep -E "^VIOLATION|HARNESS|seed=" | head -5; done
git -C /repo checkout -- .
rm -rf "$OUT"
