#!/venv/bin/python
"""Self-test of the harness' own oracles (run: PYTHONPATH=/verif:/repo /venv/bin/python tools/selftest.py).
Not a property check: it guards the trusted base (grammar, PDF reader, tax reference, reference model)
against regressions when the harness is edited."""
import sys
from fractions import Fraction as F

sys.path.insert(0, '/verif')
from hx import instr, pdf, progs, taxref  # noqa: E402

fails = []


def expect(name, got, want):
    if got != want:
        fails.append(f'{name}: got {got!r}, want {want!r}')


# --- instruction grammar -------------------------------------------------------
L = ['1', '2', '3', '4', '5a', '5b', '6', '7', '8', '9', '10']
p = instr.parse
expect('add range', p('8. Add lines 1 through 4, 5a, 5b, and 7. Enter here and on Form 1040, 1040-S R, or 1040-N R, line 20.', '8', L).expr,
       ('add', ['1', '2', '3', '4', '5a', '5b', '7']))
expect('carry', p('8. Add lines 1 through 4, 5a, 5b, and 7. Enter here and on Form 1040, 1040-S R, or 1040-N R, line 20.', '8', L).carry, [('1040', '20')])
expect('sub floor', p('4. Subtract line 3 from line 1. If line 3 is more than line 1, enter 0.', '4', L).expr, ('sub', '3', '1', 'zero'))
expect('sub zero-or-less', p('15. Subtract line 14 from line 11. If zero or less, enter -0-. This is your taxable income.', '15', None).expr, ('sub', '14', '11', 'zero'))
expect('plain sub', p('11. Subtract line 10 from line 9. This is your adjusted gross income.', '11', None).expr, ('sub', '10', '9', None))
expect('condsub', p('Refund. 34. If line 33 is more than line 24, subtract line 24 from line 33. This is the amount you overpaid.', '34', None).expr, ('condsub', '24', '33'))
expect('mul pct', p('3. Multiply line 2 by 7.5 % (0.075).', '3', L).expr, ('mul', '2', ('const', 0.075)))
expect('mul usd', p('5. Multiply line 4 by $2,000.', '5', L).expr, ('mul', '4', ('const', 2000.0)))
expect('min', p('14. Enter the smaller of line 12 or line 13. This is your child tax credit.', '14', None).expr, ('min', '12', '13'))
expect('copy form', p('2. Enter amount from Form 1040 or 1040-S R, line 11.', '2', L).expr, ('copy', '1040', '11'))
expect('copy schedule', p('8. Additional income from Schedule 1, line 10.', '8', L).expr, ('copy', '1040_s1', '10'))
expect('unparsed conditional', p('16a. Subtract line 14 from line 12. If zero, stop here; you cannot take the additional child tax credit.', '16a', None), None)
expect('roundup', p('10. Subtract line 9 from line 3. If zero or less, enter 0. If more than zero and not a multiple of $1,000, enter the next multiple of $1,000. For example, if the result is $425, enter $1,000; if the result is $1,025, enter $2,000, etc.', '10', L).expr,
       ('roundup', ('sub', '9', '3', 'zero'), 1000.0))
expect('nc floor0', p('15. Multiply Line 14 by 4.75% (0.0475). If zero or less, enter a zero.', '15', None).expr, ('floor0', ('mul', '14', ('const', 0.0475))))
expect('cap0', p('16. Open parenthesis. Total qualified business (loss) carryforward. Combine lines 2 and 3. If greater than zero, enter 0. Close parenthesis.', '16', ['2', '3']).expr,
       ('cap0', ('add', ['2', '3'])))
expect('roundup eval exact', instr.evaluate(('roundup', ('sub', '9', '3', 'zero'), 1000.0), {'9': 200000.0, '3': 210000.0}.get), 10000.0)
expect('roundup eval up', instr.evaluate(('roundup', ('sub', '9', '3', 'zero'), 1000.0), {'9': 200000.0, '3': 210000.01}.get), 11000.0)

# --- tax reference (values printed in the IRS tax tables / computation worksheets) ---
expect('2023 single 25,300 row', taxref.table_tax(2023, 'Single', F(25300)), 2819)
expect('2023 mfj 25,300 row', taxref.table_tax(2023, 'MarriedFilingJointly', F(25300)), 2599)
expect('2022 single 100000', taxref.formula(2022, 'Single', F(100000)), F('17835.5') + F(0))
expect('2021 hoh boundary continuity', taxref.formula(2021, 'HeadOfHousehold', F(164900)) == taxref.formula(2021, 'HeadOfHousehold', F(16490000, 100)), True)

# --- PDF reader --------------------------------------------------------------------
for year, n in ((2021, 131), (2022, 136), (2023, 139)):
    path = f'/repo/habutax/forms/ty{year}/f1040.pdf'
    af, xf = pdf.template_fields(path), pdf.xfa_fields(path)
    expect(f'{year} f1040 fields', len(af), n)
    expect(f'{year} f1040 acro==xfa names', set(af) == set(xf), True)
expect('nc line 15 text', 'Multiply Line 14 by 4.75% (0.0475). If zero or less, enter a zero.' in '\n'.join(pdf.page_texts('/repo/habutax/forms/ty2023/fnc_d-400.pdf')), True)

# --- reference model on a hand-made program -------------------------------------------
prog = {'forms': [{'name': 'fa', 'kind': 'plain', 'instances': [], 'inputs': [{'name': 'a', 'type': 'int'}],
                   'lines': [{'name': '1', 'required': True, 'expr': ['add', ['in', 'a'], ['val', '2']]},
                             {'name': '2', 'required': False, 'expr': ['lit', 2.5]},
                             {'name': '3', 'required': True, 'expr': ['ni']}]}],
        'request': ['fa'], 'file': {'fa.a': '2'}, 'prompt': {'mode': 'none', 'k': 0, 'answers': {}}}
m = progs.model(prog)
expect('model verdict', m['verdict'], False)
expect('model solution', m['solution'], {'fa.1': 4.5, 'fa.2': 2.5})
expect('model unimplemented', m['unimplemented'], {'fa.3'})

if fails:
    print('SELFTEST FAILURES:')
    for f in fails:
        print('  ' + f)
    sys.exit(1)
print('selftest ok')
