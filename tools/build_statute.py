#!/usr/bin/env python3
"""Builds data/statute.json: the independent table of published statutory
amounts (typed from the Revenue Procedures / form instructions / NC D-401) with
the probe that makes each amount show through the real code. Run from /verif.

Status vector order: Single, MarriedFilingJointly, MarriedFilingSeparately, HeadOfHousehold, QSS."""
import json
import os

ST = ['Single', 'MarriedFilingJointly', 'MarriedFilingSeparately', 'HeadOfHousehold', 'QSS']


def by_status(s, mfj, mfs, hoh, qss):
    return dict(zip(ST, [s, mfj, mfs, hoh, qss]))


E = []


def add(id_, source, probe, values, printed=None, years=None, note=None):
    E.append({'id': id_, 'source': source, 'probe': probe, 'values': values, 'printed_in_template': printed, 'note': note})


RP = {2021: 'Rev. Proc. 2020-45', 2022: 'Rev. Proc. 2021-45', 2023: 'Rev. Proc. 2022-38'}

# 1. standard deduction ------------------------------------------------------
add('standard_deduction', 'Rev. Proc. 2020-45 sec. 3.15 / 2021-45 sec. 3.15 / 2022-38 sec. 3.15; printed beside Form 1040 line 12',
    {'kind': 'echo', 'line': {'2021': '1040.12a', '2022': '1040.12', '2023': '1040.12'},
     'reads': {'v:1040.itemizing': False, 'i:1040.standard_deduction_exceptions': False}},
    {'2021': by_status(12550, 25100, 12550, 18800, 25100), '2022': by_status(12950, 25900, 12950, 19400, 25900),
     '2023': by_status(13850, 27700, 13850, 20800, 27700)},
    printed={'form': '1040', 'line': {'2021': '12a', '2022': '12', '2023': '12'},
             'patterns': {'Single': r'Single or Married filing separately, \$([\d,]+)', 'MarriedFilingSeparately': r'Single or Married filing separately, \$([\d,]+)',
                          'MarriedFilingJointly': r'Married filing jointly or Qualifying (?:widow\(er\)|surviving spouse), \$([\d,]+)',
                          'QSS': r'Married filing jointly or Qualifying (?:widow\(er\)|surviving spouse), \$([\d,]+)', 'HeadOfHousehold': r'Head of household, \$([\d,]+)'}})

# 2. QBI income threshold (Form 8995 may be used at or below it) ---------------
add('qbi_income_threshold', 'Rev. Proc. 2020-45 sec. 3.27 / 2021-45 sec. 3.27 / 2022-38 sec. 3.27 (threshold amount under sec. 199A(e)(2)); Form 8995 instructions "Who can use Form 8995"',
    {'kind': 'straddle', 'line': '1040.13', 'driver': 'v:1040.11',
     'reads': {'i:1040.number_1099-div': 1, 'v:1099-div:0.box_5': 100.0, 'v:1040.12c': 0.0}, 'below': 'value', 'at': 'value', 'above': 'ni'},
    {'2021': by_status(164900, 329800, 164925, 164900, 164900), '2022': by_status(170050, 340100, 170050, 170050, 170050),
     '2023': by_status(182100, 364200, 182100, 182100, 182100)})

# 3. capital gain rate breakpoints (worksheet lines 6 and 13) -------------------
add('capgain_zero_rate_max', 'Rev. Proc. 2020-45 sec. 3.03 / 2021-45 sec. 3.03 / 2022-38 sec. 3.03 (maximum zero rate amount); Qualified Dividends and Capital Gain Tax Worksheet line 6',
    {'kind': 'echo', 'line': '1040_qualdiv_capgain_tax_wkst.6', 'reads': {}},
    {'2021': by_status(40400, 80800, 40400, 54100, 80800), '2022': by_status(41675, 83350, 41675, 55800, 83350),
     '2023': by_status(44625, 89250, 44625, 59750, 89250)})
add('capgain_15_rate_max', 'Rev. Proc. 2020-45 sec. 3.03 / 2021-45 sec. 3.03 / 2022-38 sec. 3.03 (maximum 15-percent rate amount); worksheet line 13',
    {'kind': 'echo', 'line': '1040_qualdiv_capgain_tax_wkst.13', 'reads': {}},
    {'2021': by_status(445850, 501600, 250800, 473750, 501600), '2022': by_status(459750, 517200, 258600, 488500, 517200),
     '2023': by_status(492300, 553850, 276900, 523050, 553850)})

# 4. AMT --------------------------------------------------------------------
add('amt_exemption', 'Rev. Proc. 2020-45 sec. 3.11 / 2021-45 sec. 3.11 / 2022-38 sec. 3.11; Worksheet To See if You Should Fill in Form 6251, line 6',
    {'kind': 'echo', 'line': '1040_s2_need_6251.6', 'reads': {}},
    {'2021': by_status(73600, 114600, 57300, 73600, 114600), '2022': by_status(75900, 118100, 59050, 75900, 118100),
     '2023': by_status(81300, 126500, 63250, 81300, 126500)})
add('amt_exemption_phaseout_start', 'same sections (threshold phaseout amounts); worksheet line 8',
    {'kind': 'echo', 'line': '1040_s2_need_6251.8', 'reads': {}},
    {'2021': by_status(523600, 1047200, 523600, 523600, 1047200), '2022': by_status(539900, 1079800, 539900, 539900, 1079800),
     '2023': by_status(578150, 1156300, 578150, 578150, 1156300)})
add('amt_28_percent_start', 'same sections (excess taxable income above which the 28 percent rate applies); worksheet line 12 question',
    {'kind': 'straddle', 'line': '1040_s2_need_6251.need_6251', 'driver': 'v:1040_s2_need_6251.11',
     'reads': {'v:1040_s2_need_6251.5': 5000000.0, 'v:1040_s2_need_6251.6': 0.0, 'v:1040_s2_need_6251.12': 0.0, 'v:1040_s2_need_6251.13': 1.0},
     'below': False, 'at': False, 'above': True},
    {'2021': by_status(199900, 199900, 99950, 199900, 199900), '2022': by_status(206100, 206100, 103050, 206100, 206100),
     '2023': by_status(220700, 220700, 110350, 220700, 220700)})

# 5. child tax credit ----------------------------------------------------------
add('ctc_phaseout_start', 'IRC sec. 24(b)(1) as amended by TCJA ($400,000 joint, $200,000 other); Schedule 8812 line 9',
    {'kind': 'echo', 'line': '1040_s8812.9', 'reads': {}},
    {y: by_status(200000, 400000, 200000, 200000, 200000) for y in ('2021', '2022', '2023')},
    printed={'form': '1040_s8812', 'line': '9', 'patterns': {'MarriedFilingJointly': r'Married filing jointly-\$([\d,]+)', 'Single': r'All other filing statuses-\$([\d,]+)',
                                                              'MarriedFilingSeparately': r'All other filing statuses-\$([\d,]+)', 'HeadOfHousehold': r'All other filing statuses-\$([\d,]+)',
                                                              'QSS': r'All other filing statuses-\$([\d,]+)'}})
add('ctc_per_child', 'IRC sec. 24(h)(2): $2,000 per qualifying child (2022, 2023); Schedule 8812 line 5',
    {'kind': 'echo', 'line': '1040_s8812.5', 'reads': {'v:1040_s8812.4': 1}},
    {y: by_status(2000, 2000, 2000, 2000, 2000) for y in ('2022', '2023')})
add('odc_per_dependent', 'IRC sec. 24(h)(4): $500 credit for other dependents; Schedule 8812 line 7',
    {'kind': 'echo', 'line': '1040_s8812.7', 'reads': {'v:1040_s8812.6': 1}},
    {y: by_status(500, 500, 500, 500, 500) for y in ('2021', '2022', '2023')})
add('actc_max_per_child', 'Rev. Proc. 2021-45 sec. 3.05 ($1,500 for 2022) / 2022-38 sec. 3.05 ($1,600 for 2023); Schedule 8812 line 16b',
    {'kind': 'echo', 'line': '1040_s8812.16b', 'reads': {'v:1040_s8812.4': 1}},
    {'2022': by_status(1500, 1500, 1500, 1500, 1500), '2023': by_status(1600, 1600, 1600, 1600, 1600)})
add('ctc_2021_enhanced_phaseout_start', 'ARPA sec. 9611 / IRC sec. 24(i)(4): $150,000 joint or surviving spouse, $112,500 head of household, $75,000 other; 2021 Schedule 8812 Line 5 Worksheet line 8',
    {'kind': 'echo', 'line': '1040_s8812.5_ws_8', 'reads': {}},
    {'2021': by_status(75000, 150000, 75000, 112500, 150000)})
add('ctc_2021_enhanced_credit_floor', '2021 Schedule 8812 Line 5 Worksheet line 6: $12,500 joint, $2,500 qualifying widow(er), $4,375 head of household, $6,250 other (IRC sec. 24(i)(4)(C))',
    {'kind': 'echo', 'line': '1040_s8812.5_ws_6', 'reads': {}},
    {'2021': by_status(6250, 12500, 6250, 4375, 2500)})
add('ctc_2021_amounts', 'ARPA sec. 9611: $3,600 under 6, $3,000 age 6-17; Line 5 Worksheet lines 1 and 2',
    {'kind': 'echo', 'line': '1040_s8812.5_ws_1', 'reads': {'v:1040_s8812.4b': 1}},
    {'2021': by_status(3600, 3600, 3600, 3600, 3600)})
add('ctc_2021_amounts_older', 'ARPA sec. 9611: $3,000 age 6-17; Line 5 Worksheet line 2',
    {'kind': 'echo', 'line': '1040_s8812.5_ws_2', 'reads': {'v:1040_s8812.4c': 1}},
    {'2021': by_status(3000, 3000, 3000, 3000, 3000)})

# 6. Additional Medicare Tax -----------------------------------------------------
for ln in ('5', '9', '15'):
    add(f'additional_medicare_threshold_line{ln}', 'IRC sec. 3101(b)(2): $250,000 joint, $125,000 married filing separately, $200,000 other (not indexed); Form 8959 lines 5/9/15',
        {'kind': 'echo', 'line': f'8959.{ln}', 'reads': {}},
        {y: by_status(200000, 250000, 125000, 200000, 200000) for y in ('2021', '2022', '2023')},
        printed={'form': '8959', 'line': ln, 'patterns': {'MarriedFilingJointly': r'Married filing jointly, \$([\d,]+)', 'MarriedFilingSeparately': r'Married filing separately, \$([\d,]+)',
                                                           'Single': r'(?:Qualifying (?:widow\(er\)|surviving spouse)), \$([\d,]+)', 'HeadOfHousehold': r'(?:Qualifying (?:widow\(er\)|surviving spouse)), \$([\d,]+)',
                                                           'QSS': r'(?:Qualifying (?:widow\(er\)|surviving spouse)), \$([\d,]+)'}})

# 7. HSA limits -------------------------------------------------------------------
add('hsa_limit_self_only', 'Rev. Proc. 2020-32 (2021: $3,600) / 2021-25 (2022: $3,650) / 2022-24 (2023: $3,850); Form 8889 line 3',
    {'kind': 'echo', 'line': '8889:you.3', 'reads': {'i:8889:you.age_under_55': True, 'i:8889:you.hsa_full_year': True, 'v:8889:you.1': False}},
    {'2021': by_status(3600, 3600, 3600, 3600, 3600), '2022': by_status(3650, 3650, 3650, 3650, 3650), '2023': by_status(3850, 3850, 3850, 3850, 3850)},
    printed={'form': '8889', 'line': '3', 'patterns': {s: r'enter \$([\d,]+) \(' for s in ST}})
add('hsa_limit_family', 'same revenue procedures (2021: $7,200; 2022: $7,300; 2023: $7,750); Form 8889 line 3',
    {'kind': 'echo', 'line': '8889:you.3', 'reads': {'i:8889:you.age_under_55': True, 'i:8889:you.hsa_full_year': True, 'v:8889:you.1': True}},
    {'2021': by_status(7200, 7200, 7200, 7200, 7200), '2022': by_status(7300, 7300, 7300, 7300, 7300), '2023': by_status(7750, 7750, 7750, 7750, 7750)},
    printed={'form': '8889', 'line': '3', 'patterns': {s: r'\(\$([\d,]+) for family coverage\)' for s in ST}})

# 8. SALT cap -----------------------------------------------------------------------
add('salt_cap', 'IRC sec. 164(b)(6): $10,000 ($5,000 married filing separately); Schedule A line 5e',
    {'kind': 'echo', 'line': '1040_sa.5e', 'reads': {'v:1040_sa.5d': 1000000.0}},
    {y: by_status(10000, 10000, 5000, 10000, 10000) for y in ('2021', '2022', '2023')},
    printed={'form': '1040_sa', 'line': '5e', 'patterns': {'Single': r'or \$([\d,]+) \(', 'MarriedFilingJointly': r'or \$([\d,]+) \(', 'HeadOfHousehold': r'or \$([\d,]+) \(',
                                                            'QSS': r'or \$([\d,]+) \(', 'MarriedFilingSeparately': r'\(\$([\d,]+) if married filing separately\)'}})

# 9. EIC ------------------------------------------------------------------------------
EIC = {
    '2021': {0: (21430, 27380), 1: (42158, 48108), 2: (47915, 53865), 3: (51464, 57414)},
    '2022': {0: (16480, 22610), 1: (43492, 49622), 2: (49399, 55529), 3: (53057, 59187)},
    '2023': {0: (17640, 24210), 1: (46560, 53120), 2: (52918, 59478), 3: (56838, 63398)},
}
for n in range(4):
    add(f'eic_agi_limit_{n}_children', 'Form 1040 instructions, line 27 ("Earned Income Credit": AGI must be less than ...) for 2021 (ARPA amounts), 2022, 2023; Rev. Proc. sec. 3.06 (completed phaseout amounts)',
        {'kind': 'straddle', 'line': {'2021': '1040.27a', '2022': '1040.27', '2023': '1040.27'}, 'driver': 'v:1040.11',
         'reads': {'i:1040.number_dependents': n, 'v:1040.2a': 0.0, 'v:1040.2b': 0.0, 'v:1040.3b': 0.0, 'v:1040.7': 0.0, 'i:1040.form_4797': False},
         'below': 'ni', 'at': 'value', 'above': 'value'},
        {y: by_status(EIC[y][n][0], EIC[y][n][1], EIC[y][n][0], EIC[y][n][0], EIC[y][n][0]) for y in ('2021', '2022', '2023')})
add('eic_investment_income_limit', 'Form 1040 instructions line 27 step 2 / Rev. Proc. sec. 3.06(2): $10,000 (2021, ARPA), $10,300 (2022), $11,000 (2023)',
    {'kind': 'straddle', 'line': {'2021': '1040.27a', '2022': '1040.27', '2023': '1040.27'}, 'driver': 'v:1040.2b',
     'reads': {'i:1040.number_dependents': 0, 'v:1040.11': 1000.0, 'v:1040.2a': 0.0, 'v:1040.3b': 0.0, 'v:1040.7': 0.0, 'i:1040.form_4797': False},
     'below': 'ni', 'at': 'ni', 'above': 'value'},
    {'2021': by_status(10000, 10000, 10000, 10000, 10000), '2022': by_status(10300, 10300, 10300, 10300, 10300), '2023': by_status(11000, 11000, 11000, 11000, 11000)})

# 10. 2021 recovery rebate credit ---------------------------------------------------------
add('rrc_phaseout_start', '2021 Form 1040 instructions, Recovery Rebate Credit Worksheet line 9: $75,000 single/MFS, $150,000 joint or qualifying widow(er), $112,500 head of household (ARPA sec. 9601)',
    {'kind': 'straddle', 'line': '1040_recovery_rebate_credit_wkst.9_checkbox', 'driver': 'v:1040.11', 'reads': {}, 'below': False, 'at': False, 'above': True},
    {'2021': by_status(75000, 150000, 75000, 112500, 150000)})
add('rrc_phaseout_end', 'same worksheet line 10: $80,000 / $160,000 / $120,000',
    {'kind': 'echo', 'line': '1040_recovery_rebate_credit_wkst.10', 'reads': {'v:1040_recovery_rebate_credit_wkst.9': 0.0}},
    {'2021': by_status(80000, 160000, 80000, 120000, 160000)})
add('rrc_phaseout_divisor', 'same worksheet line 11: divide line 10 by $5,000 ($10,000 joint or qualifying widow(er); $7,500 head of household) - probed with line 10 = 5,000',
    {'kind': 'echo', 'line': '1040_recovery_rebate_credit_wkst.11', 'reads': {'v:1040_recovery_rebate_credit_wkst.10': 5000.0}, 'scale': 5000.0, 'invert': True},
    {'2021': by_status(5000, 10000, 5000, 7500, 10000)})
add('rrc_amount_per_dependent', 'ARPA sec. 9601: $1,400 per dependent; worksheet line 7',
    {'kind': 'echo', 'line': '1040_recovery_rebate_credit_wkst.7', 'reads': {'i:1040_recovery_rebate_credit_wkst.dependents_ssn_before_due_date': 1}},
    {'2021': by_status(1400, 1400, 1400, 1400, 1400)})
add('rrc_amount_filer', 'ARPA sec. 9601: $1,400 ($2,800 joint); worksheet line 6',
    {'kind': 'echo', 'line': '1040_recovery_rebate_credit_wkst.6', 'reads': {'v:1040_recovery_rebate_credit_wkst.2': True, 'v:1040_recovery_rebate_credit_wkst.3': False,
                                                                         'v:1040_recovery_rebate_credit_wkst.4': False, 'v:1040_recovery_rebate_credit_wkst.5': False}},
    {'2021': by_status(1400, 2800, 1400, 1400, 1400)})

# 11. credits on Schedule 3 ------------------------------------------------------------------
add('saver_credit_agi_limit', 'Form 8880 instructions / Notice 2020-79, 2021-61, 2022-55: AGI above which no retirement savings contributions credit is available',
    {'kind': 'straddle', 'line': '1040_s3.4', 'driver': 'v:1040.11', 'reads': {'i:1040_s3.retirement_savings_contributions': True}, 'below': 'ni', 'at': 'ni', 'above': 'value'},
    {'2021': by_status(33000, 66000, 33000, 49500, 33000), '2022': by_status(34000, 68000, 34000, 51000, 34000), '2023': by_status(36500, 73000, 36500, 54750, 36500)})
add('foreign_tax_without_1116', 'IRC sec. 904(j): $300 ($600 joint return); Schedule 3 line 1 instructions',
    {'kind': 'straddle', 'line': '1040_s3.1', 'driver': 'v:1099-int:0.box_6',
     'reads': {'i:1040_s3.other_foreign_gross_income': False, 'i:1040.number_1099-int': 1, 'i:1040.number_1099-div': 0}, 'below': 'value', 'at': 'value', 'above': 'ni'},
    {y: by_status(300, 600, 300, 300, 300) for y in ('2021', '2022', '2023')})

# 12. North Carolina ----------------------------------------------------------------------------
add('nc_tax_rate', 'N.C. Gen. Stat. sec. 105-153.7: 5.25% (2021), 4.99% (2022), 4.75% (2023); printed on Form D-400 line 15 - probed with line 14 = 100,000',
    {'kind': 'echo', 'line': 'nc_d-400.15', 'reads': {'v:nc_d-400.14': 100000.0}},
    {'2021': by_status(5250, 5250, 5250, 5250, 5250), '2022': by_status(4990, 4990, 4990, 4990, 4990), '2023': by_status(4750, 4750, 4750, 4750, 4750)},
    printed={'form': 'nc_d-400', 'page_text': r'Multiply Line 14 by [\d.]+% \((0\.\d+)\)', 'scale': 100000.0})
add('nc_standard_deduction', 'N.C. Gen. Stat. sec. 105-153.5(a)(1): 2021 $21,500 joint/surviving spouse, $16,125 head of household, $10,750 single and MFS; 2022 and 2023 $25,500 / $19,125 / $12,750 (S.L. 2021-180)',
    {'kind': 'echo', 'line': 'nc_d-400_sa.nc_standard_deduction', 'reads': {'i:1040.standard_deduction_exceptions': False}},
    {'2021': by_status(10750, 21500, 10750, 16125, 21500), '2022': by_status(12750, 25500, 12750, 19125, 25500), '2023': by_status(12750, 25500, 12750, 19125, 25500)})
NC_CHILD = {
    '2021': [2500, 2000, 1500, 1000, 500, 0], '2022': [3000, 2500, 2000, 1500, 1000, 500, 0], '2023': [3000, 2500, 2000, 1500, 1000, 500, 0]}
NC_BANDS = {'MarriedFilingJointly': 20000, 'QSS': 20000, 'HeadOfHousehold': 15000, 'Single': 10000, 'MarriedFilingSeparately': 10000}
for band in range(7):
    vals = {}
    for y in ('2021', '2022', '2023'):
        amounts = NC_CHILD[y]
        if band >= len(amounts):
            continue
        vals[y] = {s: amounts[band] for s in ST}
    add(f'nc_child_deduction_band_{band}', 'N.C. Gen. Stat. sec. 105-153.5(a1) child deduction table (2021: $2,500 top amount, bands of $20,000 joint / $15,000 head of household / $10,000 other starting at 40,000 / 30,000 / 20,000; 2022+: $3,000 top amount, S.L. 2021-180); Form D-400 line 10b worksheet',
        {'kind': 'echo_at', 'line': 'nc_d-400_child_deduction_wkst.4', 'driver': 'v:nc_d-400_child_deduction_wkst.2', 'band': band, 'band_width': NC_BANDS, 'reads': {}},
        vals)

# 13. further amounts ---------------------------------------------------------------------------------
add('nc_sa_mortgage_and_property_tax_cap', 'N.C. Gen. Stat. sec. 105-153.5(a)(2)b: qualified residence interest plus real estate property taxes capped at $20,000; D-400 Schedule A line 4',
    {'kind': 'echo', 'line': 'nc_d-400_sa.4', 'reads': {}},
    {y: by_status(20000, 20000, 20000, 20000, 20000) for y in ('2021', '2022', '2023')})
add('nc_sa_real_estate_tax_cap', 'D-400 Schedule A line 2 instructions: real estate taxes as limited by the federal $10,000 ($5,000 married filing separately) cap',
    {'kind': 'echo', 'line': 'nc_d-400_sa.2', 'reads': {'i:1040_sa.state_local_real_estate_taxes': 1000000.0}},
    {y: by_status(10000, 10000, 5000, 10000, 10000) for y in ('2021', '2022', '2023')})
add('ctc_2021_repayment_protection_threshold', '2021 Schedule 8812 line 33: $60,000 joint or qualifying widow(er), $50,000 head of household, $40,000 other (IRC sec. 24(j)(2)(B))',
    {'kind': 'echo', 'line': '1040_s8812.33', 'reads': {}},
    {'2021': by_status(40000, 60000, 40000, 50000, 60000)},
    printed={'form': '1040_s8812', 'line': '33', 'patterns': {'MarriedFilingJointly': r'Married filing jointly or Qualifying widow\(er\)-\$([\d,]+)', 'QSS': r'Married filing jointly or Qualifying widow\(er\)-\$([\d,]+)',
                                                               'HeadOfHousehold': r'Head of household-\$([\d,]+)', 'Single': r'All other filing statuses-\$([\d,]+)',
                                                               'MarriedFilingSeparately': r'All other filing statuses-\$([\d,]+)'}})
add('charitable_deduction_nonitemizers_2021', '2021 Form 1040 line 12b: cash contributions up to $300 ($600 married filing jointly) for taxpayers taking the standard deduction (CAA 2021 sec. 212)',
    {'kind': 'echo', 'line': '1040.12b', 'reads': {'v:1040.itemizing': False, 'i:1040.charitable_contributions_std_ded': 100000.0}},
    {'2021': by_status(300, 600, 300, 300, 300)})
add('underpayment_penalty_floor', 'Form 1040 line 38 instructions: a penalty may be owed only if line 37 is at least $1,000 (and more than 10% of the tax shown)',
    {'kind': 'straddle', 'line': '1040.38', 'driver': 'v:1040.37',
     'reads': {'v:1040.24': 0.0, 'v:1040.27': 0.0, 'v:1040.27a': 0.0, 'v:1040.28': 0.0, 'v:1040.29': 0.0, 'v:1040.30': 0.0, 'i:1040.need_schedule_3_part_ii': False, 'i:1040.tax_penalty': 77.0},
     'below': 0.0, 'at': 77.0, 'above': 77.0},
    {y: by_status(1000, 1000, 1000, 1000, 1000) for y in ('2021', '2022', '2023')})
add('schedule_b_interest_threshold', 'Form 1040 line 2b instructions: Schedule B is required if taxable interest is over $1,500 - probed through which line 2b takes (own total vs. Schedule B line 4)',
    {'kind': 'straddle', 'line': '1040.2b', 'driver': 'v:1099-int:0.box_1',
     'reads': {'i:1040.number_1099-int': 1, 'i:1040.number_1099-oid': 0, 'v:1099-int:0.box_3': 0.0, 'v:1040_sb.4': 7.0},
     'below': 'own', 'at': 'own', 'above': 7.0},
    {y: by_status(1500, 1500, 1500, 1500, 1500) for y in ('2021', '2022', '2023')})

out = {'_comment': 'Independent table of statutory amounts with the probe that shows each through the real code. Generated by tools/build_statute.py (the committed file is the oracle; edit the builder and regenerate). printed_in_template: where the bundled template prints the amount, read at run time as a second witness.',
       'statuses': ST, 'amounts': E}
here = os.path.dirname(os.path.dirname(os.path.abspath(__file__)))
with open(os.path.join(here, 'data', 'statute.json'), 'w') as f:
    json.dump(out, f, indent=1)
print(len(E), 'amounts')
