#!/usr/bin/env python3
"""Regenerates MANIFEST.json from the table below (run from /verif)."""
import json
import os

HERE = os.path.dirname(os.path.dirname(os.path.abspath(__file__)))

CHECKS = {
    'C07': dict(
        category='exploration',
        technique='enumeration + Hypothesis-generated incomes against an independent exact-arithmetic bracket reference (differential oracle)',
        text=('Every IRS table row, every bracket boundary and (thorough) every whole-dollar income below 100000 for all '
              '5 statuses x 3 years is pushed through the real figure_tax() and compared with a reference computed in exact '
              'rationals from the Revenue-Procedure brackets; Hypothesis adds log-uniform/boundary-biased incomes up to 1e12 '
              'and pair relations (monotone, marginal bound, QSS==MFJ). Exhaustive below 100000 in the thorough tier; sampled above.'),
        note='Trusted: data/brackets.json (typed from Rev. Proc. 2020-45/2021-45/2022-38), the IRS row layout and half-up rounding rule, CPython Fractions.',
        design='3/C07'),
    'C10': dict(
        category='exploration',
        technique='per-line fuzzing of every line definition on catalogue-typed mock stores (Hypothesis draws per read) with a catalogue-membership oracle and exception bucketing',
        text=('Every line of every form instance of all three years is evaluated in isolation many times on mock stores whose reads are '
              'resolved against the same year\'s catalogue and answered with draws of the declared type, so rare branches are driven without '
              'needing a whole return that reaches them; any unresolved name, AttributeError/NameError/RecursionError/assertion/KeyError is a '
              'violation; forms referenced but not catalogued must make the real solver abort with "not supported". Saved cases of repaired '
              'defects are replayed on every run. Random search: a path needing a value the mock alphabets never draw is missed.'),
        note='Trusted: catalogue introspection (hx/catalog.py), the mock alphabets (hx/mock.py), data/absent_forms.json (reviewed deliberately-absent forms).',
        design='3/C10'),
}

NOT_YET = {
}

ALL = ['C%02d' % n for n in range(1, 21)]


def main():
    checks = []
    for pid in ALL:
        c = CHECKS.get(pid)
        if not c:
            continue
        checks.append({
            'property_id': pid,
            'quick_cmd': f'./check {pid} --tier quick',
            'thorough_cmd': f'./check {pid} --tier thorough',
            'evidence_file': f'evidence/{pid}.json',
            'replay_cmd_template': f'./check {pid} --replay {{path}}',
            'engine': 'hx',
            'level_claimed': {'category': c['category'], 'text': c['text'], 'design_ref': 'DESIGN.md section ' + c['design']},
            'level_note': c['note'],
            'technique': c['technique'],
        })
    na = [{'property_id': pid, 'reason': NOT_YET.get(pid, 'check not built yet in this session (planned in DESIGN.md section 3); no claim is made until it runs')}
          for pid in ALL if pid not in CHECKS]
    m = {
        'version': 1,
        'setup_cmd': ('/venv/bin/python -c "import hypothesis" 2>/dev/null || '
                      '/venv/bin/pip install --no-index --find-links /opt/veriftools/wheels hypothesis; '
                      '/venv/bin/python -c "import hypothesis, habutax; print(hypothesis.__version__)"'),
        'hooks': {
            'guard': 'HABUTAX_VERIF',
            'enable': 'no source hooks: ./check exports HABUTAX_VERIF=1 and the harness substitutes habutax.solver.sort_keys / DependencyTracker from outside for schedule control (DESIGN.md section 2.4)',
            'baseline_off_cmd': 'cd /repo && /venv/bin/python -m pytest -q -p no:cacheprovider --continue-on-collection-errors',
            'source_commits': [],
            'add_only': True,
        },
        'engines': [{'name': 'hx', 'path': 'hx/', 'serves_properties': [c['property_id'] for c in checks],
                     'kind_free_text': 'Hypothesis-driven property-based testing / enumeration harness with collect-mode bucketing, replay files and known-findings handling'}],
        'checks': checks,
        'notes': 'All checks: ./check <id> --tier quick|thorough, fresh interpreter, PYTHONHASHSEED=0, seed from VERIF_SEED. Exit 0 held / 1 VIOLATION / 2 harness error. known_findings.json lists recorded genuine defects.',
        'not_applicable': na,
    }
    with open(os.path.join(HERE, 'MANIFEST.json'), 'w') as f:
        json.dump(m, f, indent=1)
        f.write('\n')


if __name__ == '__main__':
    main()
