#!/usr/bin/env python3
"""Regenerates MANIFEST.json from the table below (run from /verif)."""
import json
import os

HERE = os.path.dirname(os.path.dirname(os.path.abspath(__file__)))

CHECKS = {
    'C01': dict(
        category='exploration',
        technique='Hypothesis-generated form programs and answer-on-demand real returns; oracle = independent reference model (Kleene fixed point) + demand-closure re-evaluation on the final stores',
        text=('Generated catalogues of real Form classes (conditional, cross-form, multi-instance reads, cycles, not-implemented points, bad '
              'references) under every prompt mode, and real 2021-2023 returns re-solved as full file / deleted keys / partial or refusing prompt / '
              'gate inputs flipped, are checked for: verdict True iff no demanded line ends not-implemented, hits a missing input or is blocked; '
              'diagnostic getters equal the sets the oracle derives; aborts only where the model aborts; the CLI exit text matches. Random search: '
              'Requests that make the direct solve abort (an unsupported form next to supported ones) must abort on the command line too. '
              'Requests of several forms of which exactly one cannot be completed are run through the command line in every position. '
              'strong on the solver core, as wide on shipped forms as the scenario generator reaches (class distribution in evidence).'),
        note='Trusted: hx/progs.py model, hx/closure.py, the scenario generator. Aborts with NotImplementedError/InvalidInput/bad-reference errors are allowed outcomes.',
        design='3/C01'),
    'C02': dict(
        category='exploration',
        technique='instruction grammar over the official line text (XFA accessibility text of the mapped widget, NC page text through ToUnicode, cited transcription) evaluated against (a) generated operands of closed lines, (b) sentinel values for carried lines, (c) solved real returns (differential oracle independent of the Python form definitions)',
        text=('About 90 numeric lines per year on the IRS templates plus ~35 transcribed worksheet/NC lines are parsed into expressions '
              '(add/combine with ranges, subtract with floor, conditional subtract, multiply by rate/amount/line, smaller/larger, copy, divide, '
              'carry-out). Isolated: the real definition of each closed line is evaluated on generated operand tuples incl. boundary and '
              'negative-floor cases; carried lines are probed with per-line sentinel values so that carrying the wrong source line shows; '
              'end-to-end: every parsed line and every carry of every solved generated return is recomputed from the same solution. '
              'Sentences that total payer-statement boxes (template wording or cited transcription) are evaluated on the input file, and half of the '
              'returns are completed so that every such box is filled on every copy (answer-on-demand never fills a box nobody asks for); '
              'Lines that were computable from exactly the lines their instruction names at the pinned tree (data/closed_lines.json) must stay so. '
              '"Figure the tax on line N" uses the harness\' own rate-schedule reference. '
              'Unparsed sentences and non-closed lines are listed in evidence, never guessed.'),
        note='Trusted: hx/instr.py grammar, hx/pdf.py text extraction, data/instructions_transcribed.json (sources cited). Lines whose text is "see instructions" or an input echo are out of reach.',
        design='3/C02'),
    'C03': dict(
        category='exploration',
        technique='re-evaluation oracle: every stored line of every generated solve (programs and real returns, drawn schedules) is recomputed from its own definition on the final stores; solution text round-trips through Field.from_string',
        text=('Every solve explored (generated programs with diamonds/late operands and real returns, complete and partial, under random, reversed '
              'and natural attempt orders) is re-evaluated line by line: stored value == definition(final inputs, final values), same type; equals '
              'the reference model for programs; solution text re-reads to the stored value; table-edge returns, and every stored line evaluated again '
              'in descending and shuffled order after an unrelated return was solved in the same process, and on freshly constructed form objects '
              '(no hidden state in module, closure or form object).'),
        note='Trusted: definitions are deterministic; hx/closure.py; schedule substitution via habutax.solver.sort_keys/DependencyTracker.',
        design='3/C03'),
    'C04': dict(
        category='exploration',
        technique='set-equality oracle between Solver state (solution keys, Solver.forms) and the independently computed demand closure, over generated programs and real returns with several requested form sets',
        text=('For solved and unsolved real returns (requested: 1040, 1040+NC, NC alone, single schedules) and generated programs with optional '
              'lines/forms/numbered copies, the keys of the solution and the participating forms must equal the demand closure (both directions), '
              'a successful solution holds every required line of every participating form; '
              'inputs typed at the real command-line prompt (always one that dozens of lines wait for) must give the same solution file; '
              'input-only loaded forms must not appear, every solution section is a participating form.'),
        note='Trusted: hx/closure.py, hx/progs.py model.',
        design='3/C04'),
    'C05': dict(
        category='exploration',
        technique='metamorphic testing: base run vs. drawn attempt schedules, permuted requested forms, configparser-equivalent re-serialisations of the input file, file/prompt splits; equality of verdict, solution, forms, diagnostics',
        text=('Each base case (real 2021-2023 return or generated program, solved or unsolved) is re-run under 6-12 variants that must not matter: '
              'random and reversed attempt orders (all four ordering points of the solver are substituted), permuted requested forms, re-serialised '
              'input files, inputs moved from the file to a total prompt, and the `habutax solve` command on the re-serialised file. '
              'Non-triviality is measured by the attempt trace actually differing from the base.'),
        note='Trusted: schedule substitution covers every use of sort_keys and met_dependents(); runs with a refusing prompt are compared only when both ended with the same supplied inputs; the printed CLI failure report is parsed back and compared.',
        design='3/C05'),
    'C06': dict(
        category='exploration',
        technique='Hypothesis rule-based state machine on DependencyTracker against a reference model (validity predicate) + generated form programs under PRNG-drawn schedules with evaluation/prompt counters',
        text=('Histories of register/meet/drain/interleaved-step operations are generated by a state machine and checked against a model: every '
              'release corresponds to an unreleased registration on a met dependency, nothing is left after a drain, the query methods agree. '
              'Generated form programs (cycles, self-references, unknown names, refusing prompts) are solved under random, reversed and natural '
              'schedules with a deterministic step budget: termination, each input asked once, nothing asked after a refusal, per-line '
              'evaluations <= 2 + distinct waits + distinct declarations; fan-in of 1-30 lines through the real command-line prompt; prompt callbacks '
              'returning rejected text (asked once, prompt-count guard); real returns under drawn schedules with no wait left on a line or input that '
              'got its value. Random search over small programs/histories; no liveness proof.'),
        note='Trusted: the tracker model and caller precondition in checks/c06.py; the program generator hx/progs.py; step budget of 20000 evaluations.',
        design='3/C06'),
    'C07': dict(
        category='exploration',
        technique='enumeration + Hypothesis-generated incomes against an independent exact-arithmetic bracket reference (differential oracle)',
        text=('Every IRS table row, every bracket boundary and (thorough) every whole-dollar income below 100000 for all '
              '5 statuses x 3 years is pushed through the real figure_tax() and compared with a reference computed in exact '
              'rationals from the Revenue-Procedure brackets; Hypothesis adds log-uniform/boundary-biased incomes up to 1e12 '
              'and pair relations (monotone, marginal bound, QSS==MFJ). Exhaustive below 100000 in the thorough tier; sampled above.'),
        note='Trusted: data/brackets.json (typed from Rev. Proc. 2020-45/2021-45/2022-38), the IRS row layout and half-up rounding rule, CPython Fractions.',
        design='3/C07'),
    'C08': dict(
        category='exploration',
        technique='exhaustive enumeration of (year, status, amount) triples from an independent sourced table, each observed through an echo or straddle probe on the real line definition with drawn backgrounds; second witness parsed from the bundled templates where the amount is printed',
        text=('41 amount families x years x 5 statuses (560 triples): standard deductions, capital-gain breakpoints, AMT exemption / phase-out / 28% start, '
              'child-credit amounts and phase-out starts, Additional Medicare thresholds, HSA limits, SALT cap, QBI, EIC (4 child counts + investment '
              'income) and saver-credit limits, recovery rebate amounts, foreign tax limit, NC rate, NC standard deduction and every band of the NC '
              'child deduction. Echo probes read the line that prints the amount; straddle probes evaluate the deciding line at limit-0.01 / limit / '
              'limit+0.01. The finite table is enumerated completely; amounts printed in the templates (standard deduction, 8959, 8889, Schedule A, '
              '8812 line 9, NC rate) are cross-checked at run time; all triples are evaluated once more in one process, forwards and backwards.'),
        note='Trusted: data/statute.json (sources per entry; typed from the Revenue Procedures/instructions) and the probe definitions in tools/build_statute.py.',
        design='3/C08'),
    'C09': dict(
        category='exploration',
        technique='gate-mode scenario generation (persona steered per gate, declaring answer injected, consultation proved by a recording input store) + isolated evaluation of owning lines under recorded witness assignments and typed random reads + limit recipes with just-below controls',
        text=('For each of the ~70 reviewed gate inputs per year a persona pulls in the owning form and the declaring answer is injected (alone, with '
              'others, or into random solving returns); whenever the recording store shows the gate consulted with that value by a line that can act '
              'on it, the solve must not succeed. Each owning line is also evaluated in isolation with the gate declared: it must consult the gate '
              '(deterministic witness from the pinned tree) and never produce a value. Amount limits (foreign tax, Schedule B rows, HSA, educator '
              'expenses, 1099-OID) are straddled with a control at the limit that solves (recipes enumerated per year); status-indexed limits whose far '
              'side is not implemented are probed for every year x status. A consultation is a read by one of the gate\'s owning lines. '
              'Evidence lists gates never consulted.'),
        note='Trusted: data/gates.json (reviewed list), data/gate_witnesses.json (assignments recorded at the pinned tree), scenario generator.',
        design='3/C09'),
    'C10': dict(
        category='exploration',
        technique='per-line fuzzing of every line definition on catalogue-typed mock stores (Hypothesis draws per read) with a catalogue-membership oracle and exception bucketing',
        text=('Every line of every form instance of all three years is evaluated in isolation many times on mock stores whose reads are '
              'resolved against the same year\'s catalogue and answered with draws of the declared type, so rare branches are driven without '
              'needing a whole return that reaches them; any unresolved name, AttributeError/NameError/RecursionError/assertion/KeyError is a '
              'violation; forms referenced but not catalogued must make the real solver abort with "not supported". Saved cases of repaired '
              'defects are replayed on every run. Random search: a path needing a value the mock alphabets never draw is missed.'),
        note='Trusted: catalogue introspection (hx/catalog.py), the mock alphabets (hx/mock.py), data/absent_forms.json (reviewed deliberately-absent forms).',
        design='3/C10'),
    'C11': dict(
        category='exploration',
        technique='grammar-based adversarial string generation per input class against an independent reference gate; differential at class level, through InputStore+solver (file), through the CLI prompt loop, and inside real returns',
        text=('~20k (quick) / 2M (thorough) adversarial strings x 10 input classes: valid()/value() must agree with an independent gate '
              '(typed, finite, reference value), a one-line form logs what its definition receives through the real solver from the file '
              'and from scripted invalid-then-valid prompt answers, supplied inputs are never missing and absent ones never default; real '
              '1040 returns get one input replaced by adversarial text.'),
        note='Trusted: the reference gate in checks/c11.py (Python int()/float() grammar + finiteness; documented boolean/enum/SSN/regex formats). "%" excluded (INI interpolation, see C13/C20).',
        design='3/C11'),
    'C12': dict(
        category='exploration',
        technique='generated return values of every Python kind x field class x places against a reference typing/rounding function, at unit level and through two-line programs in the real solver; invariant check over values stored by real solves; exhaustive InputForm mirror check',
        text=('A reference function (accept iff type(v) is the declared type; None/blank -> empty value; floats -> round(v, places); else '
              'TypeError naming the line) is compared with Field.value() and with what a dependant observes through the real solver, for bools, '
              'ints, floats (+-0.0, nan, inf, half-way), strings, None, foreign enum members, subclasses and containers. Every value stored '
              'by explored real returns has its declared type and is a fixed point of round(., places); every InputForm mirrors input types.'),
        note='Trusted: the reference function in checks/c12.py.',
        design='3/C12'),
    'C14': dict(
        category='exploration',
        technique='round-trip oracle: typed values and whole real solutions -> to_config/write -> fill_pdfs read-back (PDFFiller re-typing, captured by a harness subclass) -> equality',
        text=('Floats of every magnitude x places, ints to 10^400, bools, every member of the shipped enumerations and None, and text parsed '
              'from generated INI input (continuation lines, %, #, ;, =, :, [, non-ASCII) are written by ValueStore.to_config and read back '
              'by the real fill_pdfs/PDFFiller path; real solved returns go through `habutax solve --solution` and `habutax fill-pdfs` with a '
              'stand-in pdftk; year carried and used.'),
        note='Trusted: tools/pdftk stand-in; enumerations compared by (class name, member name, value) because forms create per-instance enum classes.',
        design='3/C14'),
    'C15': dict(
        category='exploration',
        technique='validity predicates (balance equations, non-negativity of floored/named lines) over solved generated returns, with personas biased to each dominating branch; the non-negative set is derived at run time from zero floors parsed out of the template text plus a sourced table',
        text=('Solved 2021-2023 returns (owing, refund, refund applied, deductions above income, credits above tax, NC taxable income below zero, '
              '8606) are checked for 34-37 = 33-24, not both positive, 35a+36 = 34, the NC counterparts, and >= 0 for every line whose official '
              'text carries a zero floor or that data/nonneg_lines.json names (with category); ratios stay in [0,1]. Evidence counts how often '
              'each floor was active; each return is also re-solved with its withholding moved so that the balance is 0, +-1 cent ... +-250 dollars.'),
        note='Trusted: the scenario generator draws non-negative amounts; data/nonneg_lines.json; hx/instr.py floor detection.',
        design='3/C15'),
    'C16': dict(
        category='exploration',
        technique='metamorphic relations on pairs of solved returns: instance renumbering (all permutations up to 3 copies), wage / deduction / withholding increments',
        text=('Each solved base return is transformed and re-solved: renumbering W-2/1099/1098 copies must leave every line equal (1 cent; NC 1 '
              'dollar) and Schedule B rows equal as a multiset; W-2 wages + delta must not lower total tax (federal, NC); each deductible input '
              '+ delta must not raise it; each withholding/payment input + delta must move refund-minus-owed by exactly delta. Pairs whose '
              'second return does not solve are dropped and counted (inputs that only the second return demands are answered by the persona\'s policy). '
              'Every withholding and deductible key of a return is changed once; threshold sweep: AGI exactly on every literal of the participating '
              'forms vs a little above; deduction cliffs on the literals of the input\'s own form.'),
        note='Trusted: lists of deductible and withholding inputs in checks/c16.py; tolerance 0.011 (float summation order).',
        design='3/C16'),
    'C17': dict(
        category='exploration',
        technique='exhaustive enumeration of (year, form class, instance) and (threshold table, status) with structural predicates; CLI listings parsed back with a strict configparser (round trip)',
        text=('Every catalogued form of every year is instantiated for every allowed instance and checked (tax year, unique name, metadata, '
              'filing prerequisites, duplicate-free lower-case dot-free names, each status matches exactly one key of every status-keyed table and '
              'threshold() returns it); `list-forms` per year/jurisdiction and `list-form-inputs` per form/instance run through habutax.main() and '
              'the printed template must parse back to exactly the declared inputs. The space is finite and enumerated completely.'),
        note='Trusted: catalogue introspection; numbered input forms probed for instances None, 0..2 and 7.',
        design='3/C17'),
    'C18': dict(
        category='exploration',
        technique='exhaustive enumeration of all pdf mappings against an independently parsed template (stdlib PDF reader: AcroForm tree + XFA accessibility text), enumerating every driving value for button groups',
        text=('All ~1800 (form instance, mapping) pairs of the three years are checked against the bundled PDF templates: target exists, line label '
              'in the template text / NC field name agrees with the mapped line, button export values are on-states, max_length equals /MaxLen '
              '(and is not omitted), choices equal /Opt, no target mapped twice, same-named sibling check boxes are mutually exclusive for every '
              'value of the driving line, every mapped line exists. Finite space, enumerated completely.'),
        note='Trusted: hx/pdf.py (validated by 100% name agreement between AcroForm tree and XFA template on all IRS templates); data/label_exceptions.json (3 reviewed widgets).',
        design='3/C18'),
    'C13': dict(
        category='exploration',
        technique='model-based history testing: generated operation sequences (solve+prompt+write-back total/interrupted, re-solve, delete keys, re-serialise) on one input file through the real CLI against a model dict; recording stores at solver level for demand-exactness',
        text=('Solver level: on real returns and generated programs every prompt call is matched against the recorded reads (absent, read by '
              'an evaluated line that ended in MissingInput, asked once, needed_by lines did read it) and unread inputs are shown not to be '
              'required. CLI level: histories on one file with a model of known answers - after write-back the file holds them, a re-solve never '
              'asks for them, and after a complete answered run the re-solve asks nothing and yields the identical solution (as a mapping). '
              'Answer texts include literal "%".'),
        note='Trusted: prompt header parsing; model dict in checks/c13.py; key order inside the solution file is not part of "identical solution".',
        design='3/C13'),
    'C19': dict(
        category='exploration',
        technique='generated adversarial printable-ASCII texts injected into solved real returns, filled through the real fill-pdfs path against a stand-in pdftk; independent PDF literal-string decoder (round trip), independent filing-rule and limit tables',
        text=('Every FDF handed to the PDF tool is decoded by an independent reader of the PDF string syntax and compared field by field with '
              'the mapped texts; the set, multiplicity, template and order of the filled forms is compared with data/filing_rules.json '
              '(IRS attachment sequence numbers, NC assembly order; never worksheets or payer statements); texts longer than the template /MaxLen '
              'or outside /Opt must raise the documented error before any `cat`.'),
        note='Trusted: hx/pdf.py string reader, data/filing_rules.json, tools/pdftk stand-in (records argv + FDF).',
        design='3/C19'),
    'C20': dict(
        category='fault_enumeration',
        technique='fault injection enumerated over every input() call index of every generated interactive session x 4 interruption kinds, with a file-superset oracle and a re-run oracle',
        text=('For each generated session (real return, partial initial file, scripted answers with invalid-first and "%"/quote texts) the '
              'uninterrupted run fixes n; then every k in [0,n] is interrupted by Ctrl-C, EOF, an unsupported form and a failing line '
              '(exhaustive over k), plus the natural need_8962 recipe. After each: the file parses strictly, still holds every prior value and '
              'every answer accepted before the fault, and a re-run never asks for them.'),
        note='Trusted: faults for "unsupported form"/"failing line" are injected by substituting Solver._add_form / TypedField.value from the harness for one run; sessions are sampled, k is exhaustive per session.',
        design='3/C20'),
}

NOT_YET = {
}

ALL = ['C%02d' % n for n in range(1, 21)]


def main():
    checks = []
    for pid in ALL:
        c = CHECKS.get(pid)
        if not c:
            continue
        checks.append({
            'property_id': pid,
            'quick_cmd': f'./check {pid} --tier quick',
            'thorough_cmd': f'./check {pid} --tier thorough',
            'evidence_file': f'evidence/{pid}.json',
            'replay_cmd_template': f'./check {pid} --replay {{path}}',
            'engine': 'hx',
            'level_claimed': {'category': c['category'], 'text': c['text'], 'design_ref': 'DESIGN.md section ' + c['design']},
            'level_note': c['note'],
            'technique': c['technique'],
        })
    na = [{'property_id': pid, 'reason': NOT_YET.get(pid, 'check not built yet in this session (planned in DESIGN.md section 3); no claim is made until it runs')}
          for pid in ALL if pid not in CHECKS]
    m = {
        'version': 1,
        'setup_cmd': ('/venv/bin/python -c "import hypothesis" 2>/dev/null || '
                      '/venv/bin/pip install --no-index --find-links /opt/veriftools/wheels hypothesis; '
                      '/venv/bin/python -c "import hypothesis, habutax; print(hypothesis.__version__)"'),
        'hooks': {
            'guard': 'HABUTAX_VERIF',
            'enable': 'no source hooks: ./check exports HABUTAX_VERIF=1 and the harness substitutes habutax.solver.sort_keys / DependencyTracker from outside for schedule control (DESIGN.md section 2.4)',
            'baseline_off_cmd': 'cd /repo && /venv/bin/python -m pytest -q -p no:cacheprovider --continue-on-collection-errors',
            'source_commits': [],
            'add_only': True,
        },
        'engines': [{'name': 'hx', 'path': 'hx/', 'serves_properties': [c['property_id'] for c in checks],
                     'kind_free_text': 'Hypothesis-driven property-based testing / enumeration harness with collect-mode bucketing, replay files and known-findings handling'}],
        'checks': checks,
        'notes': 'All checks: ./check <id> --tier quick|thorough, fresh interpreter, PYTHONHASHSEED=0, seed from VERIF_SEED. Exit 0 held / 1 VIOLATION / 2 harness error. known_findings.json lists recorded genuine defects.',
        'not_applicable': na,
    }
    with open(os.path.join(HERE, 'MANIFEST.json'), 'w') as f:
        json.dump(m, f, indent=1)
        f.write('\n')


if __name__ == '__main__':
    main()
