#!/bin/bash
# runs every registered quick check at the given seeds; prints one line per (seed, check)
cd "$(dirname "$0")/.."
seeds="${@:-1}"
for s in $seeds; do
  for n in $(seq -w 1 20); do
    id="C$n"
    start=$(date +%s)
    out=$(VERIF_SEED=$s ./check $id --tier quick 2>&1)
    rc=$?
    end=$(date +%s)
    echo "seed=$s $id rc=$rc $((end-start))s $(echo "$out" | grep -c '^VIOLATION') violations $(echo "$out" | grep -c '^KNOWN-FINDING') known"
    if [ $rc -ne 0 ]; then echo "$out" | grep -E "violation bucket|HARNESS|Error" | head -5 | cut -c1-400; fi
  done
done
