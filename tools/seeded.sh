#!/bin/bash
# usage: tools/seeded.sh <seeded dir with patch.diff, demo.py, meta.json> [check ids...]
# Applies the patch to /repo, runs the repository tests, the demonstration and the
# named checks (quick), then restores /repo. Never commits anything in /repo.
d="$(cd "$1" && pwd)"; shift
ids="$@"
R="${SEED_REPO:-/repo}"; cd "$R" || exit 2
if [ -n "$(git status --porcelain --untracked-files=no)" ]; then echo "repo dirty"; exit 2; fi
# the demos locate the repository relative to their own position (<repo>/SEEDED/<k>/demo.py): run a copy from there
k="$(basename "$d" | sed 's/.*-//')"; mkdir -p "$R/SEEDED/$k"; cp "$d/demo.py" "$R/SEEDED/$k/demo.py"; demo="$R/SEEDED/$k/demo.py"
trap 'rm -rf "$R/SEEDED"' EXIT
echo "== demo on unchanged tree"; (cd "$R" && PYTHONPATH="$R" PYTHONWARNINGS=ignore /venv/bin/python "$demo" 2>&1 | tail -2; echo "exit=${PIPESTATUS[0]}")
if ! git apply --check "$d/patch.diff" 2>/dev/null; then echo "PATCH DOES NOT APPLY"; git apply --check "$d/patch.diff"; exit 3; fi
git apply "$d/patch.diff"
echo "== repo tests with patch"; PYTHONPATH="$R" /venv/bin/python -m pytest -q -p no:cacheprovider --continue-on-collection-errors 2>&1 | tail -1
echo "== demo with patch"; (cd "$R" && PYTHONPATH="$R" PYTHONWARNINGS=ignore /venv/bin/python "$demo" 2>&1 | tail -2; echo "exit=${PIPESTATUS[0]}")
cd /verif
OUT=$(mktemp -d /tmp/hxv_seeded.XXXXXX)   # replays and evidence of a mutated tree never land in /verif
for i in $ids; do
  out=$(HXV_OUT_DIR="$OUT" HABUTAX_REPO="$R" ./check $i --tier quick 2>&1)
  echo "== $i: $(echo "$out" | grep -c '^VIOLATION') violation lines; $(echo "$out" | tail -1)"
  echo "$out" | grep "violation bucket" | head -3 | cut -c1-300
done
git -C "$R" checkout -- .
rm -rf "$OUT"
