#!/venv/bin/python
"""Differential per-line discovery of gate inputs (bootstrap for data/gates.json).

For every line and every boolean input it reads: re-evaluate the line with the
same recorded reads but that input flipped. If the outcome is not-implemented
for exactly one polarity, the input is a gate for that line with that polarity.
'always' = in every observed case with the gate polarity the line ended
not-implemented (unconditional gate); otherwise the gate is conditional.
Prints JSON; the committed data/gates.json is this output after hand review."""
import json
import sys
sys.path.insert(0, '/verif')
from hypothesis import strategies as st
from hx import catalog, hyp, mock
from hx.run import Ctx
from checks import c10

N = int(sys.argv[1]) if len(sys.argv) > 1 and sys.argv[1].isdigit() else 60
out = {}
WIT = {}
SOLO = {}


def keep_witness(key, line, rec, pol):
    k = f'{YEAR[0]}|{key}|{line}'
    r = dict(rec)
    r.pop(f'i:{key}', None)
    r.pop(f'v:{key}', None)
    if k not in WIT or len(r) < len(WIT[k]):
        WIT[k] = r
    # second witness: the one with the fewest *other* booleans set, so that the gate is reached on its own
    # branch rather than through a "more than one box ticked" test
    ntrue = sum(1 for v_ in r.values() if v_ is True)
    if k not in SOLO or (ntrue, len(r)) < SOLO[k][0]:
        SOLO[k] = ((ntrue, len(r)), r)


YEAR = [None]
for year in catalog.YEARS:
    YEAR[0] = year
    cat = catalog.get(year)
    gates = {}
    for name in sorted(cat.lines):
        line = cat.lines[name]
        ctx = Ctx('C09')

        def body(data, line=line, name=name):
            o1, log = c10.eval_line(ctx, cat, line, data.draw)
            rec = {f'{k}:{key}': v for k, key, v in log}
            for k, key, v in log:
                if k == 'i' and isinstance(v, float):
                    # amounts: compare zero with a positive amount
                    alt = 0.0 if v > 0 else 100.0
                    rec2 = dict(rec)
                    rec2[f'i:{key}'] = alt
                    o2, _ = c10.eval_line(ctx, cat, line, data.draw, recorded=rec2)
                    a, b = (o1, o2) if v > 0 else (o2, o1)   # a: positive, b: zero
                    g = gates.setdefault(key, {}).setdefault(name, {'T_ni': 0, 'T_other': 0, 'F_ni': 0, 'F_other': 0, 'flip_T': 0, 'flip_F': 0, 'amount': True})
                    g['T_ni' if a == 'not_implemented' else 'T_other'] += 1
                    g['F_ni' if b == 'not_implemented' else 'F_other'] += 1
                    if a == 'not_implemented' and b != 'not_implemented':
                        g['flip_T'] += 1
                    if b == 'not_implemented' and a != 'not_implemented':
                        g['flip_F'] += 1
                mirror = (k == 'v' and isinstance(v, bool) and catalog.is_input_form(type(cat.lines[key].form())))
                if (k == 'i' or mirror) and isinstance(v, bool):
                    rec2 = dict(rec)
                    rec2[f'{k}:{key}'] = not v
                    o2, _ = c10.eval_line(ctx, cat, line, data.draw, recorded=rec2)
                    a, b = (o1, o2) if v else (o2, o1)     # a: outcome with True, b: with False
                    g = gates.setdefault(key, {}).setdefault(name, {'T_ni': 0, 'T_other': 0, 'F_ni': 0, 'F_other': 0, 'flip_T': 0, 'flip_F': 0})
                    g['T_ni' if a == 'not_implemented' else 'T_other'] += 1
                    g['F_ni' if b == 'not_implemented' else 'F_other'] += 1
                    if a == 'not_implemented' and b != 'not_implemented':
                        g['flip_T'] += 1
                        keep_witness(key, name, rec, True)
                    if b == 'not_implemented' and a != 'not_implemented':
                        g['flip_F'] += 1
                        keep_witness(key, name, rec, False)
        hyp.run_data(body, N, 12345)
    res = {}
    for key, lines in gates.items():
        for lname, g in lines.items():
            if g['flip_T'] or g['flip_F']:
                pol = g['flip_T'] >= g['flip_F']
                always = (g['T_other'] == 0) if pol else (g['F_other'] == 0)
                res.setdefault(key, {'polarity': pol, 'lines': {}})
                if g.get('amount'):
                    res[key]['amount'] = True
                res[key]['lines'][lname] = 'always' if always else 'conditional'
                if (g['flip_T'] > 0) and (g['flip_F'] > 0):
                    res[key]['mixed'] = True
    out[str(year)] = res
json.dump(out, sys.stdout, indent=1, sort_keys=True)
if '--solo-only' not in sys.argv:
    with open('/verif/data/gate_witnesses.json', 'w') as f:
        json.dump(WIT, f, indent=0, sort_keys=True)
with open('/verif/data/gate_witnesses_solo.json', 'w') as f:
    json.dump({k: v[1] for k, v in SOLO.items()}, f, indent=0, sort_keys=True)
