"""C13 — prompting is demand-exact; written-back answers make the run repeatable.

(A) solver level (recording stores): every input passed to the prompt was
    absent, had been read by an evaluated line whose attempt ended in
    MissingInput for it, is asked at most once, and every line quoted in
    needed_by did read it; inputs never read are not required.
(B) command-line histories over one input file with a model dict `known`:
    solve with prompt (total / interrupted) + write-back, re-solve, delete
    keys, re-serialise; after write-back known is in the file, a re-solve
    never asks for a known input, and after a complete answered run the
    re-solve asks nothing and writes the identical solution."""
import configparser
import re

from hypothesis import strategies as st

import habutax.forms as hforms

from hx import campaign, catalog, cli, hyp, realcamp, scenario, solve

PROPERTY = 'C13'
LEVEL = 'exploration'
RULE = ('(A) real 2021-2023 returns and generated programs solved with total and refusing prompts on partially deleted files, recorded '
        'reads compared with the prompt calls; (B) histories of 3-8 operations {solve+prompt+writeback (total | interrupted after k '
        'answers), re-solve, delete keys, re-serialise} on one input file through `habutax solve`, with a model dict of known answers. '
        'Non-trivial = a history with at least one answered prompt, a write-back and a later re-solve; distinct = (scenario, op sequence)'
        ' Also: a file value that its input rejects, with the prompt enabled (the file supplies it: it must not be asked for).'
        ' Every line the command-line prompt quotes as needing the input must be a line of the form it is attributed to; a re-solve on the written-back file must not fail to read it.')
ASSUMPTIONS = ['prompt texts identify the input by the "----[ form.name ]----" header the CLI prints',
               'answers are compared after strip(); answer texts may contain "%" (typed literally at the prompt)']

HEADER = re.compile(r'----\[ (\S+) \]----')


# ---------------------------------------------------------------------------
# (A) solver level
def demand_exact(ctx, r, file_inputs, case, where):
    trace = r.trace
    asked = [p[0] for p in trace.prompts]
    if len(asked) != len(set(asked)):
        ctx.violation(f'{where}:asked-twice', f'an input was prompted twice: {[a for a in asked if asked.count(a) > 1][:3]}', case)
    readers = {}
    for name, reads, _ in trace.attempts:
        for kind, key, outcome, _v in reads:
            if kind == 'i' and outcome == 'missing':
                readers.setdefault(key, set()).add(name)
    for inp, needed_by, supplied, text in trace.prompts:
        if inp in file_inputs:
            ctx.violation(f'{where}:asked-supplied', f'{inp} is in the file but was prompted', case)
        if inp not in readers:
            ctx.violation(f'{where}:asked-unread', f'{inp} was prompted although no evaluated line read it while absent', case)
        elif not set(needed_by) <= readers[inp]:
            ctx.violation(f'{where}:needed-by', f'{inp}: needed_by quotes {sorted(set(needed_by) - readers[inp])[:3]} which never read it', case)


def unread_not_required(ctx, sc, r, case):
    """delete every key no evaluated line read: verdict and solution unchanged"""
    if r.exc is not None:
        return
    read = {key for _, reads, _ in r.trace.attempts for kind, key, o, _v in reads if kind == 'i'}
    kept = {k: v for k, v in sc['inputs'].items() if k in read}
    if len(kept) == len(sc['inputs']):
        ctx.count('no_unread_keys')
    r2 = scenario.resolve({'year': sc['year'], 'forms': sc['forms'], 'inputs': kept})
    if r2.exc is not None or r2.verdict != r.verdict or r2.solution != r.solution:
        ctx.violation('real:unread-input-required', f'removing inputs that no line read ({sorted(set(sc["inputs"]) - read)[:4]}) changed the result: verdict {r.verdict}->{r2.verdict} exc={r2.exc!r}', case)


def shard_solver(ctx, k, payload):
    n, seed = payload

    def body(data):
        p = data.draw(scenario.personas())
        sc, _ = scenario.build(p, data.draw)
        # pad the file with declared-but-never-read inputs of the participating forms
        v = realcamp.make_variant(data.draw, sc, ['prompt_total', 'prompt_total', 'prompt_refuse', 'full'])
        if v['prompt'] is not None and v['inputs'] and data.draw(st.integers(0, 4)) == 0:
            # a value in the file that its input rejects, with the prompt enabled: the file supplies it, so it is
            # not to be asked for (the solve stops with the error naming it)
            bad = {'bool': 'maybe', 'int': 'x1', 'float': 'abc', 'enum': 'NoSuchMember'}
            cands = [k_ for k_ in sorted(v['inputs']) if input_object(v['year'], k_) is not None and catalog.input_kind(input_object(v['year'], k_)) in bad]
            if cands:
                k_ = data.draw(st.sampled_from(cands))
                v['inputs'] = dict(v['inputs'], **{k_: bad[catalog.input_kind(input_object(v['year'], k_))]})
                ctx.count('solver:invalid_file_value_with_prompt')
        r = realcamp.run_variant(v)
        ctx.case()
        case = {'part': 'solver', 'variant': v}
        if r.exc is None or True:
            demand_exact(ctx, r, v['inputs'], case, 'real')
        ctx.count('prompts_checked', len(r.trace.prompts))
        if v['kind'] == 'full':
            unread_not_required(ctx, sc, r, case)
        if any(pp[2] for pp in r.trace.prompts):
            ctx.nt({'v': v})
    hyp.run_data(body, n, seed)


# ---------------------------------------------------------------------------
# (B) command-line histories
def input_object(year, name):
    cat = catalog.get(year)
    cat.ensure(name.split('.')[0])
    return cat.inputs.get(name)


_DESC = {}


def quoted_lines_exist(year, prompt_text):
    """the 'Additional input is needed by:' list of the command-line prompt: every quoted (form description, instance,
    line) must be a line of a form with that description and instance; returns the ones that are not"""
    import habutax.forms as hforms
    if year not in _DESC:
        _DESC[year] = {}
        for cls in hforms.available_forms[year]:
            _DESC[year].setdefault(f'{cls.description}: {cls.long_description}', []).append(cls)
    cat = catalog.get(year)
    bad = []
    for line in prompt_text.splitlines():
        m = re.match(r"^ \* (?:Instance '(?P<inst>[^']*)' of )?(?P<desc>.*), line '(?P<base>[^']*)'$", line)
        if not m:
            continue
        ok = False
        for cls in _DESC[year].get(m.group('desc'), []):
            fname = cls.form_name + (':' + m.group('inst') if m.group('inst') else '')
            try:
                cat.ensure(fname)
            except Exception:
                continue
            if f'{fname}.{m.group("base")}' in cat.lines:
                ok = True
        if not ok:
            bad.append(line.strip())
    return bad


def answer_text(data, year, name, answers, percent_ok=True):
    if name in answers:
        return answers[name]
    inp = input_object(year, name)
    t = scenario.fallback(inp) if inp is not None else 'x'
    if inp is not None and catalog.input_kind(inp) == 'str' and percent_ok and data.draw(st.integers(0, 3)) == 0:
        t = data.draw(st.sampled_from(['100% sure', '50%', '%(x)s', 'a%%b', 'rate: 5 %']))
    answers[name] = t
    return t


def sol_dict(text):
    """solution file as {section: {line: text}}; the order of keys in the file is not part of the solution"""
    cp = solve.solution_from_text(text)
    return {sec: dict(cp[sec]) for sec in cp.sections()}


def parse_file(text):
    cp = configparser.ConfigParser()
    cp.read_string(text)
    return cp


def file_get(cp, name):
    sec, key = name.split('.', 1)
    if not cp.has_option(sec, key):
        return None
    return cp.get(sec, key)


def history(ctx, data, sc, nops):
    year, forms = sc['year'], sc['forms']
    answers = dict(sc['inputs'])          # what the user would type
    known = {}                            # model: input -> text known to be in the file
    ops_log = []
    case = {'part': 'history', 'year': year, 'forms': forms, 'initial': None, 'ops': ops_log}
    keys = sorted(sc['inputs'])
    keep = [k for k in keys if data.draw(st.integers(0, 3)) > 0]
    initial = {k: sc['inputs'][k] for k in keep}
    case['initial'] = initial
    known.update(initial)
    flags = set()
    # answers typed at the prompt are literal text: some contain '%'
    for k_ in keys:
        if k_ not in initial:
            inp = input_object(year, k_)
            if inp is not None and catalog.input_kind(inp) == 'str' and data.draw(st.integers(0, 2)) == 0:
                answers[k_] = data.draw(st.sampled_from(['100% sure', '50%', '%(x)s', 'a%%b', 'rate: 5 %', '401k match 50% of pay', '12 Elm St #4', '#4', 'a ; b', ';x', 'k = v', '[sec]', "O'Neil"]))
                flags.add('percent_answer')
    last_complete_solution = [None]
    with cli.scratch() as d:
        text = solve.config_to_text(solve.config_from_dict(initial))
        path_text = [text]

        def run_cli(prompt, interrupt_after=None, writeback=True):
            asked = []

            def fn(ptxt, idx):
                m = HEADER.search(ptxt)
                if m is None:
                    # "Invalid input, try again?" re-prompt: should not happen with valid answers
                    asked.append(('?', ptxt))
                    return cli.Script.INT
                name = m.group(1)
                bad_quote = quoted_lines_exist(year, ptxt)
                if bad_quote:
                    ctx.violation('hist:prompt-quotes-nonexistent-line', f'the prompt for {name} says it is needed by {bad_quote[:3]}, which are not lines of the forms they are attributed to', case)
                if interrupt_after is not None and len([a for a in asked if a[0] != '?']) >= interrupt_after:
                    asked.append((name, None))
                    return cli.Script.INT
                t = answer_text(data, year, name, answers)
                asked.append((name, t))
                return t
            o = cli.solve(d, year, forms, input_text=path_text[0], prompt_missing=prompt, writeback=writeback and prompt,
                          solution=True, script=cli.FnScript(fn) if prompt else None)
            if o.input_after is not None:
                path_text[0] = o.input_after
            return o, asked

        for step in range(nops):
            op = data.draw(st.sampled_from(['solve_total', 'solve_interrupt', 'resolve', 'resolve', 'delete', 'reserialize']))
            if op in ('solve_total', 'solve_interrupt'):
                k = data.draw(st.integers(0, 6)) if op == 'solve_interrupt' else None
                before = parse_file(path_text[0])
                o, asked = run_cli(True, interrupt_after=k)
                ops_log.append([op, k, [a for a in asked]])
                ctx.case()
                for name, t in asked:
                    if name == '?':
                        ctx.violation('hist:reprompt-on-valid-answer', f'the CLI re-prompted although the answer was valid: {t[:60]!r}', case)
                        continue
                    if name in known:
                        ctx.violation('hist:asked-known', f'{name} is known to be in the file (from {("initial file" if name in initial else "an earlier write-back")}) but was prompted again', case)
                    if file_get(before, name) is not None:
                        ctx.violation('hist:asked-present', f'{name} was in the file at that moment but was prompted', case)
                names = [a[0] for a in asked if a[0] != '?']
                if len(names) != len(set(names)):
                    ctx.violation('hist:asked-twice', f'prompted twice in one run: {names}', case)
                answered = [(nm, t) for nm, t in asked if t is not None and nm != '?']
                try:
                    after = parse_file(path_text[0])
                except Exception as e:
                    ctx.violation('hist:file-unparsable', f'input file does not parse after write-back: {e!r}', case)
                    return flags
                for nm, t in answered:
                    try:
                        got = file_get(after, nm)
                    except Exception as e:
                        got = e
                    if not isinstance(got, str) or got.strip() != t.strip():
                        ctx.violation('hist:answer-not-written-back', f'answer {t!r} for {nm} is not in the file after write-back (found {got!r}); solve exc={o.exc!r}', case)
                    else:
                        known[nm] = t
                for nm, t in list(known.items()):
                    try:
                        got = file_get(after, nm)
                    except Exception as e:
                        got = e
                    if not isinstance(got, str) or got.strip() != t.strip():
                        ctx.violation('hist:known-lost', f'{nm}={t!r} was in the file before and is {got!r} after write-back', case)
                        known.pop(nm)
                if answered:
                    flags.add('answered')
                    flags.add('writeback')
                if op == 'solve_total' and o.exc is None:
                    last_complete_solution[0] = o.solution_text
                    flags.add('complete')
            elif op == 'resolve':
                # with a prompt available: nothing known may be asked; if the last op was a complete run, nothing at all
                o, asked = run_cli(True, interrupt_after=0, writeback=False)
                ops_log.append([op, None, [a for a in asked]])
                ctx.case()
                if 'writeback' in flags:
                    flags.add('resolve_after_writeback')
                for name, t in asked:
                    if name in known:
                        ctx.violation('hist:resolve-asks-known', f're-solve prompted for {name}, which the file is known to hold', case)
                if o.exc is not None and isinstance(o.exc, (configparser.Error, ValueError)) and 'nterpolation' in (type(o.exc).__name__ + str(o.exc)):
                    ctx.violation('hist:resolve-raises', f're-solving on the written-back file raised {o.exc!r}: the file habutax wrote cannot be read by habutax', case)
                elif last_complete_solution[0] is not None:
                    if o.exc is not None:
                        ctx.violation('hist:resolve-raises', f'after a complete answered run the re-solve on the written-back file raised {o.exc!r}', case)
                    elif asked:
                        ctx.violation('hist:resolve-asks-after-complete', f'after a complete answered run the re-solve still prompted for {[a[0] for a in asked][:3]}', case)
                    elif o.exc is None and sol_dict(o.solution_text) != sol_dict(last_complete_solution[0]):
                        ctx.violation('hist:resolve-solution-differs', 're-solve on the written-back file produced a different solution', case)
                    flags.add('repeat_checked')
            elif op == 'delete':
                cp = parse_file(path_text[0])
                allk = sorted(solve.config_to_dict(cp))
                if allk:
                    n = data.draw(st.integers(1, min(5, len(allk))))
                    gone = data.draw(st.lists(st.sampled_from(allk), min_size=n, max_size=n, unique=True))
                    dct = solve.config_to_dict(cp)
                    for g in gone:
                        dct.pop(g)
                        known.pop(g, None)
                    path_text[0] = solve.config_to_text(solve.config_from_dict(dct))
                    ops_log.append([op, gone, []])
                last_complete_solution[0] = None
            elif op == 'reserialize':
                cp = parse_file(path_text[0])
                dct = solve.config_to_dict(cp)
                keys2 = data.draw(st.permutations(sorted(dct)))
                lines = []
                secs = []
                for k2 in keys2:
                    s_ = k2.split('.', 1)[0]
                    if s_ not in secs:
                        secs.append(s_)
                for s_ in secs:
                    lines.append(f'[{s_}]')
                    for k2 in keys2:
                        if k2.split('.', 1)[0] == s_:
                            lines.append(f'{k2.split(".", 1)[1]} : {dct[k2]}'.replace('\n', '\n\t'))
                path_text[0] = '\n'.join(lines) + '\n'
                ops_log.append([op, None, []])
    return flags


def shard_hist(ctx, k, payload):
    n, nops, seed = payload

    def body(data):
        p = data.draw(scenario.personas())
        sc, r0 = scenario.build(p, data.draw)
        flags = history(ctx, data, sc, nops)
        for f in flags:
            ctx.count('history:' + f)
        if {'answered', 'writeback', 'resolve_after_writeback'} <= flags:
            ctx.nt({'y': sc['year'], 'i': sc['inputs'], 'h': data.draw(st.integers(0, 10 ** 9))})
        if len(ctx.samples) < 3 and 'repeat_checked' in flags:
            ctx.sample({'year': sc['year'], 'forms': sc['forms'], 'history_flags': sorted(flags)})
    hyp.run_data(body, n, seed)


def run(ctx):
    quick = ctx.tier == 'quick'
    campaign.campaign(ctx, ['C13'], 800 if quick else 20000, bad_refs_share=0.0, scheduled=True, rule='any', shards=4 if quick else 16)
    n_s = 120 if quick else 4000
    hyp.pmap(ctx, shard_solver, [(n_s // 4, ctx.seed * 1000 + 20 + k) for k in range(4)])
    n_h, nops = (150, 8) if quick else (5000, 8)
    shards = 8 if quick else 16
    hyp.pmap(ctx, shard_hist, [(max(1, n_h // shards), nops, ctx.seed * 1000 + 40 + k) for k in range(shards)])


def replay(ctx, case):
    if 'program' in case:
        campaign.replay_case(ctx, ['C13'], case)
        return
    if case.get('part') == 'solver':
        v = case['variant']
        r = realcamp.run_variant(v)
        demand_exact(ctx, r, v['inputs'], case, 'real')
        return
    # history replay: re-execute the recorded operations deterministically
    replay_history(ctx, case)


def replay_history(ctx, case):
    year, forms = case['year'], case['forms']
    text = solve.config_to_text(solve.config_from_dict(case['initial']))
    known = dict(case['initial'])
    with cli.scratch() as d:
        for op, arg, asked in case['ops']:
            if op in ('solve_total', 'solve_interrupt'):
                script_answers = {nm: t for nm, t in asked if nm != '?'}

                def fn(ptxt, idx, sa=script_answers):
                    m = HEADER.search(ptxt)
                    if m is None or sa.get(m.group(1)) is None:
                        return cli.Script.INT
                    return sa[m.group(1)]
                o = cli.solve(d, year, forms, input_text=text, prompt_missing=True, writeback=True, script=cli.FnScript(fn))
                text = o.input_after
                try:
                    after = parse_file(text)
                except Exception as e:
                    ctx.violation('hist:file-unparsable', repr(e), case)
                    return
                for nm, t in asked:
                    if nm == '?' or t is None:
                        continue
                    try:
                        got = file_get(after, nm)
                    except Exception as e:
                        got = e
                    if not isinstance(got, str) or got.strip() != t.strip():
                        ctx.violation('hist:answer-not-written-back', f'answer {t!r} for {nm} not in file (found {got!r}); exc={o.exc!r}', case)
                    else:
                        known[nm] = t
                for nm, t in known.items():
                    try:
                        got = file_get(after, nm)
                    except Exception as e:
                        got = e
                    if not isinstance(got, str) or got.strip() != t.strip():
                        ctx.violation('hist:known-lost', f'{nm}={t!r} became {got!r}', case)
            elif op == 'delete':
                dct = solve.config_to_dict(parse_file(text))
                for g in arg:
                    dct.pop(g, None)
                    known.pop(g, None)
                text = solve.config_to_text(solve.config_from_dict(dct))
