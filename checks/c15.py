"""C15 — a solved return balances and has no impossible negative amounts.

Validity predicates over solved real returns with non-negative input amounts:
federal and NC balance equations, and non-negativity of every line the forms
define as non-negative - the set is derived at run time from the template text
(zero floors parsed by hx/instr.py) plus data/nonneg_lines.json (the totals
the property names, each with its category)."""
import json
import os

from hypothesis import strategies as st

from hx import catalog, hyp, instr, scenario
from checks import c02

PROPERTY = 'C15'
LEVEL = 'exploration'
RULE = ('solved 2021-2023 returns from the answer-on-demand generator (non-negative amounts; personas biased to owing, refund, deductions '
        'above income, medical above/below the floor, credits above tax, NC taxable income below zero, refund applied to next year, 8606). '
        'Oracle: balance equations (1040: 34-37 = 33-24, not both positive, 35a+36 = 34; NC: 28/26a vs 25-19, 34 = 28-33, 27 = 26a+26d+26e) '
        'and >= 0 for every floored/named line. Non-trivial = a solved return where at least one zero floor is active (the unfloored '
        'expression is negative) or the return owes; distinct = (year, forms, set of active floors, owes)'
        ' Also: the same return with its withholding moved so that the federal / N.C. balance is 0, +-1 cent ... +-250 dollars; third economic impact payments larger than the credit; refunds of overpaid mortgage interest larger than the interest.'
        ' Further personas: dependents with credits over tax, investor with section 199A dividends, an IRA below its basis, N.C. refund with use tax, use-tax credit.')
ASSUMPTIONS = ['inputs are non-negative amounts (the generator draws no negative amounts)',
               'lines that legitimately follow a negative AGI or hold a loss are excluded by name (see data/nonneg_lines.json)']

HERE = os.path.dirname(os.path.dirname(os.path.abspath(__file__)))
with open(os.path.join(HERE, 'data', 'nonneg_lines.json')) as _f:
    NONNEG = json.load(_f)


def g(vals, name):
    v = vals.get(name)
    return float(v) if isinstance(v, (int, float)) and not isinstance(v, bool) else 0.0


def check_float(x):
    return float(x) if isinstance(x, (int, float)) and not isinstance(x, bool) else 0.0


def check_return(ctx, year, r, case):
    vals = r.values
    cat = catalog.get(year)
    active = set()
    # -- federal balance ---------------------------------------------------
    if '1040.33' in vals and '1040.24' in vals:
        l34, l37, l33, l24 = g(vals, '1040.34'), g(vals, '1040.37'), g(vals, '1040.33'), g(vals, '1040.24')
        ctx.case()
        if abs((l34 - l37) - (l33 - l24)) > 0.011:
            ctx.violation(f'{year}:balance:1040', f'{year}: overpayment {l34} - owed {l37} != payments {l33} - total tax {l24}', case)
        if l34 > 0.005 and l37 > 0.005:
            ctx.violation(f'{year}:both-positive:1040', f'{year}: both an overpayment ({l34}) and an amount owed ({l37})', case)
        if abs(g(vals, '1040.35a') + g(vals, '1040.36') - l34) > 0.011:
            ctx.violation(f'{year}:refund-split:1040', f'{year}: refund {g(vals, "1040.35a")} + applied {g(vals, "1040.36")} != overpayment {l34}', case)
        if l37 > 0.005:
            active.add('owes')
        if g(vals, '1040.36') > 0:
            active.add('applied_to_next_year')
    # -- NC balance --------------------------------------------------------
    if 'nc_d-400.19' in vals and 'nc_d-400.25' in vals:
        l19, l25 = g(vals, 'nc_d-400.19'), g(vals, 'nc_d-400.25')
        ctx.case()
        if 'nc_d-400.28' in vals:
            if abs(g(vals, 'nc_d-400.28') - (l25 - l19)) > 0.6 or l25 < l19:
                ctx.violation(f'{year}:balance:nc28', f'{year}: NC overpayment {g(vals, "nc_d-400.28")} but payments {l25} - tax {l19}', case)
            if 'nc_d-400.34' in vals and abs(g(vals, 'nc_d-400.34') - (g(vals, 'nc_d-400.28') - g(vals, 'nc_d-400.33'))) > 0.6:
                ctx.violation(f'{year}:balance:nc34', f'{year}: NC refund {g(vals, "nc_d-400.34")} != overpayment {g(vals, "nc_d-400.28")} - allocations {g(vals, "nc_d-400.33")}', case)
        if 'nc_d-400.26a' in vals:
            if abs(g(vals, 'nc_d-400.26a') - (l19 - l25)) > 0.6 or l25 >= l19 + 0.5:
                ctx.violation(f'{year}:balance:nc26a', f'{year}: NC tax due {g(vals, "nc_d-400.26a")} but tax {l19} - payments {l25}', case)
            if 'nc_d-400.27' in vals and abs(g(vals, 'nc_d-400.27') - (g(vals, 'nc_d-400.26a') + g(vals, 'nc_d-400.26d') + g(vals, 'nc_d-400.26e'))) > 1.1:
                ctx.violation(f'{year}:balance:nc27', f'{year}: NC amount to pay {g(vals, "nc_d-400.27")} != 26a + 26d + 26e', case)
            active.add('nc_owes')
        if g(vals, 'nc_d-400.28') > 0.5 and g(vals, 'nc_d-400.26a') > 0.5:
            ctx.violation(f'{year}:both-positive:nc', f'{year}: NC return has both an overpayment and tax due', case)
        if 'nc_d-400.28' not in vals and 'nc_d-400.26a' not in vals:
            ctx.violation(f'{year}:balance:nc-neither', f'{year}: solved NC return holds neither line 28 nor line 26a', case)
    # -- non-negativity ----------------------------------------------------
    for fname in r.forms:
        base = fname.split(':')[0]
        cat.ensure(fname)
        form = cat.forms.get(fname)
        if form is None:
            continue
        named = dict(NONNEG.get(base, {}))
        instrs, _ = c02.instructions_for(year, fname, form, cat)
        for ln, (ins, src) in instrs.items():
            e = ins.expr
            if e is None:
                continue
            if (e[0] == 'sub' and e[3] == 'zero') or e[0] in ('condsub', 'floor0'):
                named.setdefault(ln, 'zero floor in the official text')
                name = f'{fname}.{ln}'
                if name in vals:
                    raw = None
                    get = lambda l: g(vals, f'{fname}.{l}')
                    if e[0] == 'sub':
                        raw = get(e[2]) - get(e[1])
                    elif e[0] == 'condsub':
                        raw = get(e[2]) - get(e[1])
                    elif e[0] == 'floor0':
                        raw = instr.evaluate(e[1], get)
                    if raw is not None and raw < 0:
                        active.add(f'{base}.{ln}')
        for ln, why in named.items():
            name = f'{fname}.{ln}'
            if name in vals and isinstance(vals[name], (int, float)) and not isinstance(vals[name], bool):
                ctx.count('nonneg_checks')
                if vals[name] < -1e-9:
                    s31, tax18 = g(vals, '1040_s3.1'), g(vals, '1040.18')
                    if year >= 2022 and name in ('1040.19', '1040_s8812.13', '1040_s8812.14') and s31 > tax18 + 0.005:
                        # one root cause, one bucket: Schedule 3 line 1 is not limited to the tax (known finding)
                        ctx.violation(f'{year}:negative-credit:foreign-tax-credit-above-tax', f'{year}: {name} = {vals[name]} is negative ({why}): Schedule 3 line 1 = {s31} '
                                      f'exceeds the tax on Form 1040 line 18 = {tax18}, so Credit Limit Worksheet A goes below zero', case)
                    else:
                        ctx.violation(f'{year}:negative:{base}.{ln}', f'{year}: {name} = {vals[name]} is negative ({why})', case)
        for ln in NONNEG['ratios_at_most_one'].get(base, []):
            name = f'{fname}.{ln}'
            if name in vals and (vals[name] > 1.0 + 1e-9 or vals[name] < -1e-9):
                ctx.violation(f'{year}:ratio:{base}.{ln}', f'{year}: {name} = {vals[name]} is outside [0, 1]', case)
    return active


def shard(ctx, k, payload):
    n, seed = payload

    def body(data):
        p = data.draw(scenario.personas())
        bias = data.draw(st.sampled_from(['none', 'owes', 'refund', 'big_deductions', 'low_income_nc', 'apply_refund', 'credits_over_tax', 'interest_refund', 'nc_refund_with_use_tax', 'nc_use_tax_credit', 'dependents_credits_over_tax', 'investor_199a', 'ira_lost_value']))
        if bias == 'investor_199a':
            # dividends far above wages, some of them section 199A dividends (Form 8995 with net capital gain above taxable income)
            p.update(big_dividends=True, s199a=True, n_div=1, n_int=0, wage_level='low', n_w2=data.draw(st.sampled_from([0, 1])), deps=[], itemize=False)
        if bias == 'ira_lost_value':
            # Form 8606 for an IRA whose year-end value and distributions are below its basis
            p.update(ira='8606', n_r=max(1, p['n_r']), ira_lost_value=True)
        if bias == 'dependents_credits_over_tax':
            # little tax, a foreign tax credit, and a dependent who gives the credit for other dependents / child tax credit
            p.update(n_w2=0, wage_level='low', n_int=3, n_div=0, n_r=0, huge_interest=True, foreign_tax=True, itemize=False,
                     amount_bias='large', deps=[data.draw(st.sampled_from(['odc', 'ctc']))], s199a=False, ira='none', n_g=0, s1_income=False)
        if bias == 'nc_use_tax_credit':
            # few out-of-state purchases on which another state's sales tax was paid (worksheet line 3 against line 2)
            p.update(forms=['1040', 'nc_d-400'], use_tax='records', small_purchases=True, n_1098=max(1, p['n_1098']))
            if p['status'] == 'QSS':
                p['status'] = 'Single'
        if bias == 'nc_refund_with_use_tax':
            # an N.C. return that is overpaid and owes consumer use tax (line 18 > 0 separates line 17 from line 19)
            p.update(forms=['1040', 'nc_d-400'], nc_withholding=True, withhold_share=0.5, use_tax=data.draw(st.sampled_from(['table', 'records'])),
                     n_1098=max(1, p['n_1098']), n_w2=max(1, p['n_w2']))
            if p['status'] == 'QSS':
                p['status'] = 'Single'
        if bias == 'interest_refund':
            # a Form 1098 whose refund of overpaid interest (box 4) exceeds this year's interest and points
            p.update(itemize=True, n_1098=max(1, p['n_1098']), big_1098_refund=True)
        if bias == 'owes':
            p['withhold_share'] = 0.0
        elif bias == 'refund':
            p['withhold_share'] = 0.5
        elif bias == 'big_deductions':
            p['itemize'] = True
            p['n_1098'] = max(1, p['n_1098'])
            p['amount_bias'] = 'large'
            p['wage_level'] = 'low' if not p['deps'] else 'mid'
        elif bias == 'low_income_nc':
            p['forms'] = ['1040', 'nc_d-400']
            p['n_1098'] = max(1, p['n_1098'])
            p['wage_level'] = 'low' if not p['deps'] else 'mid'
            p['nc_deductions'] = True
            if p['status'] == 'QSS':
                p['status'] = 'Single'
        elif bias == 'apply_refund':
            p['withhold_share'] = 0.5
        elif bias == 'credits_over_tax':
            # investment income above the EIC limit, no wages, large itemized deductions, foreign tax paid
            p.update(n_w2=0, wage_level='low', n_int=3, n_div=0, n_r=0, huge_interest=True, foreign_tax=True, itemize=True,
                     n_1098=max(1, p['n_1098']), amount_bias='large', deps=[], s199a=False, ira='none', n_g=0, s1_income=False)
        sc, r = scenario.build(p, data.draw)
        ctx.case()
        ctx.count('bias:' + bias)
        if r.exc is not None or not r.verdict:
            ctx.count('not_solved')
            return
        ctx.count('solved')
        active = check_return(ctx, sc['year'], r, {'scenario': scenario.slim(sc)})
        for a in active:
            ctx.count('active:' + a)
        if active:
            ctx.nt(f'{sc["year"]}|{sc["forms"]}|{sorted(active)}')
        # the same return with its withholding moved so that the federal (or N.C.) balance is a few cents or a few
        # dollars either side of zero: the balance equations have their corner there
        v_ = r.values
        for form_, key_, tax_l, pay_l in (('1040', 'w-2:0.box_2', '1040.24', '1040.33'), ('nc_d-400', 'w-2:0.box_17', 'nc_d-400.19', 'nc_d-400.25')):
            if key_ not in sc['inputs'] or tax_l not in v_ or pay_l not in v_ or (form_ != '1040' and data.draw(st.integers(0, 1)) != 0):
                continue
            try:
                old_ = float(sc['inputs'][key_].strip() or 0)
            except ValueError:
                continue
            gap = data.draw(st.sampled_from([-250.0, -1.01, -1.0, -0.99, -0.5, -0.01, 0.0, 0.01, 0.5, 0.99, 1.0, 1.01, 250.0]))
            new_ = round(old_ + (check_float(v_[tax_l]) - check_float(v_[pay_l])) + gap, 2)     # payments = tax + gap
            if new_ < 0:
                continue
            sc2 = dict(sc, inputs=dict(sc['inputs'], **{key_: f'{new_:.2f}'}))
            r2 = scenario.resolve(sc2)
            ctx.case()
            if r2.exc is not None or not r2.verdict:
                ctx.count('near_zero_balance:not_solved')
                continue
            ctx.count(f'near_zero_balance:{form_}')
            act2 = check_return(ctx, sc2['year'], r2, {'scenario': scenario.slim(sc2)})
            ctx.nt(f'{sc["year"]}|{sc["forms"]}|nearzero|{form_}|{gap}|{sorted(act2)}')
        if len(ctx.samples) < 4 and len(active) >= 2:
            v = r.values
            ctx.sample({'year': sc['year'], 'forms': sc['forms'], 'active_floors': sorted(active),
                        '1040': {k_: v.get('1040.' + k_) for k_ in ('24', '33', '34', '35a', '36', '37')}})
    hyp.run_data(body, n, seed)


def run(ctx):
    quick = ctx.tier == 'quick'
    n = 1500 if quick else 30000
    shards = 16
    hyp.pmap(ctx, shard, [(n // shards, ctx.seed * 1000 + k) for k in range(shards)])


def replay(ctx, case):
    sc = case['scenario']
    r = scenario.resolve(sc)
    if r.exc is None and r.verdict:
        check_return(ctx, sc['year'], r, case)
