"""C01 — no silent success.

(a) generated form programs x input assignments x prompt modes, compared with
    the independent reference model and the demand closure;
(b) real returns (answer-on-demand scenarios) as full files, with random keys
    deleted, with partial / refusing prompts, and with gate inputs flipped,
    compared with the demand closure; a sample also goes through the
    `habutax solve` command line and its exit text is checked."""
from hypothesis import strategies as st

from hx import campaign, cli, hyp, realcamp, scenario, solve

PROPERTY = 'C01'
LEVEL = 'exploration'
RULE = ('generated programs (1-4 forms, conditional/cross-form/multi-instance reads, cycles, not-implemented points, '
        'bad references in a quarter of the shards) x present/absent/answered/refused inputs, and real returns of '
        '2021-2023 built by answer-on-demand then re-solved as full file / with deleted keys / partial prompt / refusing '
        'prompt / gates flipped; oracle = demand closure on the final stores (+ reference model for programs). A case is '
        'non-trivial when a not-implemented line was evaluated, a missing input was hit after a successful line, a line '
        'is blocked behind a blocked line, a form was added by late reference, or a refusal followed an answer; '
        'distinct = hash of (program|year+forms+file, prompt)'
        ' Also: requests of several forms of which exactly one cannot be completed (one read input removed), in every position of the request, through the `habutax solve` command line (verdict text and named diagnostics).'
        ' Requests that make the direct solve abort (an unsupported form next to supported ones) are run through the command line as well: it must abort too. One removed input of every kind per return.')
ASSUMPTIONS = ['line definitions are deterministic functions of (inputs, values) - checked separately by C03/C05',
               'aborts (NotImplementedError for an unsupported form, InvalidInput, errors from bad references) are allowed outcomes']

NT = {'ni_evaluated', 'missing_after_success', 'blocked_depth2', 'late_form', 'refusal_after_answer'}
KINDS = ['full', 'delete', 'delete', 'prompt_total', 'prompt_refuse', 'prompt_refuse', 'gates', 'gates']


def cli_text_check(ctx, variant, r):
    """the command line must say 'Successfully solved!' iff solve() was True and
    otherwise name every diagnostic"""
    if variant['prompt'] is not None:
        return
    if r.exc is not None:
        # the direct solve aborts (unsupported form, invalid value ...): the command line must not turn that into success
        if not isinstance(r.exc, (NotImplementedError,)):
            return
        with cli.scratch() as d:
            text = solve.config_to_text(solve.config_from_dict(variant['inputs']))
            o = cli.solve(d, variant['year'], variant['forms'], input_text=text, solution=True)
        ctx.count('cli_runs_on_aborting_requests')
        if o.exc is None:
            ctx.violation('cli:abort-swallowed', f'Solver.solve({variant["forms"]}) raises {r.exc!r}, but `habutax solve` with the same forms ended without an error and printed '
                          f'{[l for l in o.stdout.splitlines() if "olve" in l][:1]}', {'variant': variant})
        return
    with cli.scratch() as d:
        text = solve.config_to_text(solve.config_from_dict(variant['inputs']))
        o = cli.solve(d, variant['year'], variant['forms'], input_text=text, solution=True)
    ctx.count('cli_runs')
    case = {'variant': variant}
    if o.exc is not None:
        ctx.violation('cli:abort', f'habutax solve raised {o.exc!r} where Solver.solve() returned {r.verdict}', case)
        return
    ok = 'Successfully solved!' in o.stdout
    failed = 'Failed to solve, because...' in o.stdout
    if ok == failed or ok != bool(r.verdict):
        ctx.violation('cli:verdict-text', f'exit text says solved={ok}/failed={failed} but solve() returned {r.verdict}', case)
        return
    if not r.verdict:
        names = set(r.unimplemented) | set(r.unmet_inputs) | set(r.unmet_fields)
        missing = [n for n in names if n not in o.stdout]
        if missing:
            ctx.violation('cli:diagnostics', f'failure text does not name {missing[:5]}', case)


def delete_one_variant(draw, sc, r0):
    """remove exactly one input that the base run read; the kind of input is drawn
    first so that rare kinds (optional enumerations, regex, SSN) are not drowned"""
    from hx import catalog
    base_read = sorted({key for _, reads, _ in r0.trace.attempts for kind, key, o, _v in reads if kind == 'i'} & set(sc['inputs']))
    by_kind = {}
    for key in base_read:
        inp = r0.solver._input_map.get(key)
        k = catalog.input_kind(inp) if inp is not None else '?'
        if k == 'enum' and getattr(inp, 'allow_empty', False):
            k = 'enum_optional'
        by_kind.setdefault(k, []).append(key)
    inputs = dict(sc['inputs'])
    gone = None
    if by_kind:
        kind = draw(st.sampled_from(sorted(by_kind)))
        gone = draw(st.sampled_from(by_kind[kind]))
        inputs.pop(gone)
    return {'kind': 'delete_one', 'year': sc['year'], 'forms': sc['forms'], 'inputs': inputs, 'prompt': None, 'schedule': None, 'deleted': gone}


def delete_one_per_kind(draw, sc, r0):
    from hx import catalog
    base_read = sorted({key for _, reads, _ in r0.trace.attempts for kind, key, o, _v in reads if kind == 'i'} & set(sc['inputs']))
    by_kind = {}
    for key in base_read:
        inp = r0.solver._input_map.get(key)
        k = catalog.input_kind(inp) if inp is not None else '?'
        if k == 'enum' and getattr(inp, 'allow_empty', False):
            k = 'enum_optional'
        by_kind.setdefault(k, []).append(key)
    out = []
    for kind in sorted(by_kind):
        gone = draw(st.sampled_from(by_kind[kind]))
        out.append({'kind': 'delete_one', 'year': sc['year'], 'forms': sc['forms'], 'inputs': {k_: t for k_, t in sc['inputs'].items() if k_ != gone},
                    'prompt': None, 'schedule': None, 'deleted': gone})
    return out


def deleted_needed_check(ctx, sc, r0, v, r):
    if v['kind'] == 'delete_one' and v.get('deleted'):
        k = v['deleted']
        ctx.count('delete_one:' + k.split('.')[0].split(':')[0])
        if r.exc is None and (r.verdict or k not in r.unmet_inputs):
            ctx.violation('real:needed-input-absent-not-reported', f'{v["year"]} {v["forms"]}: {k} was read by an evaluated line in the full run and is the only input removed, '
                          f'but solve() returned {r.verdict} and reports missing inputs {sorted(r.unmet_inputs)[:4]}', {'variant': v})
        return
    """independent of the input store: an input that an evaluated line read in the
    base run and that is now absent (no prompt) must make the solve fail with a
    missing input (or abort) - the first such read cannot be passed over"""
    if v['kind'] != 'delete' or r0.exc is not None:
        return
    base_read = {key for _, reads, _ in r0.trace.attempts for kind, key, o, _v in reads if kind == 'i'}
    gone = (set(sc['inputs']) - set(v['inputs'])) & base_read
    if not gone:
        return
    ctx.count('delete:needed_input_removed')
    if r.exc is None and (r.verdict or not r.unmet_inputs):
        ctx.violation('real:needed-input-absent-not-reported', f'{v["year"]} {v["forms"]}: inputs {sorted(gone)[:4]} were read by evaluated lines and are absent from the file, '
                      f'but solve() returned {r.verdict} with missing inputs {sorted(r.unmet_inputs)[:4]}', {'variant': v, 'base_inputs': sc['inputs']})


def shard_real(ctx, k, payload):
    n, seed = payload

    def body(data):
        fs = data.draw(st.sampled_from([None, None, None, None, ['1040', 'nc_d-400'], ['w-2:0', 'w-2:1'], ['1040', '1099-int:0', '1099-int:1'], ['nc_d-400']]))
        p = data.draw(scenario.personas(forms=fs)) if fs else data.draw(scenario.personas())
        sc, r0 = scenario.build(p, data.draw)
        for e in p['excluded']:
            ctx.count('excluded_by_construction:' + e[:60])
        v = realcamp.make_variant(data.draw, sc, KINDS)
        if data.draw(st.integers(0, 4)) == 0 and r0.exc is None:
            v = delete_one_variant(data.draw, sc, r0)
        if data.draw(st.integers(0, 5)) == 0 and r0.exc is None:
            # one removed input of EVERY kind the return read (text, amount, count, yes/no, choice, optional choice, SSN ...)
            for v_ in delete_one_per_kind(data.draw, sc, r0):
                r_ = realcamp.run_variant(v_)
                ctx.case()
                realcamp.check_variant(ctx, ['C01'], v_, r_)
                deleted_needed_check(ctx, sc, r0, v_, r_)
        r = realcamp.run_variant(v)
        ctx.case()
        labels, c = realcamp.check_variant(ctx, ['C01'], v, r)
        deleted_needed_check(ctx, sc, r0, v, r)
        for l in labels:
            ctx.count('real:' + l)
        ctx.count('variant:' + v['kind'])
        if labels & NT:
            ctx.nt({'y': v['year'], 'f': v['forms'], 'i': v['inputs'], 'p': v['prompt']})
        if data.draw(st.integers(0, 7)) == 0 or (len(v['forms']) >= 2 and r.exc is None and not r.verdict and data.draw(st.booleans())):
            # several requested forms of which a later one fails: the command line must still say so
            cli_text_check(ctx, v, r)
        if len(ctx.samples) < 5 and labels & NT and r.exc is None:
            ctx.sample({'year': v['year'], 'forms': v['forms'], 'variant': v['kind'], 'n_inputs': len(v['inputs']),
                        'verdict': r.verdict, 'unimplemented': r.unimplemented[:4],
                        'missing_inputs': sorted(r.unmet_inputs)[:4], 'blocked_behind': sorted(r.unmet_fields)[:4]})
    hyp.run_data(body, n, seed)


def shard_cli_multiform(ctx, k, payload):
    """several requested forms of which exactly one cannot be completed (one of its inputs is removed), in every
    position of the request: the command line says failed and names the input, as the direct solve does"""
    n, seed = payload

    def body(data):
        fs = data.draw(st.sampled_from([['w-2:0', 'w-2:1'], ['w-2:1', 'w-2:0'], ['1099-int:0', '1099-int:1'], ['1098:0', 'w-2:0', '1099-div:0'],
                                        ['1040', 'nc_d-400'], ['nc_d-400', '1040']]))
        p = data.draw(scenario.personas(forms=fs))
        sc, r0 = scenario.build(p, data.draw)
        if data.draw(st.integers(0, 3)) == 0:
            # a form this year does not have, requested next to forms it has: the solve aborts, on the command line too
            bogus = data.draw(st.sampled_from(['1040_sc', '1040_s2', '1040_sd', '8962', '1040_recovery_rebate_credit_wkst' if sc['year'] != 2021 else '1040_se']))
            pos = data.draw(st.integers(0, len(fs)))
            v_ = {'kind': 'full', 'year': sc['year'], 'forms': fs[:pos] + [bogus] + fs[pos:], 'inputs': sc['inputs'], 'prompt': None, 'schedule': None}
            r_ = realcamp.run_variant(v_)
            ctx.case()
            ctx.count('cli_multiform:with_unsupported_form')
            if isinstance(r_.exc, NotImplementedError):
                ctx.nt({'f': v_['forms'], 'y': sc['year']})
            cli_text_check(ctx, v_, r_)
        if r0.exc is not None or not r0.verdict:
            ctx.count('cli_multiform:base_not_solved')
            return
        broken = data.draw(st.sampled_from(fs))
        keys = sorted(k_ for k_ in sc['inputs'] if k_.split('.')[0] == broken
                      and any(kind == 'i' and key == k_ for _, reads, _ in r0.trace.attempts for kind, key, o, _v in reads))
        if not keys:
            return
        gone = data.draw(st.sampled_from(keys))
        v = {'kind': 'delete_one', 'year': sc['year'], 'forms': fs, 'inputs': {k_: t for k_, t in sc['inputs'].items() if k_ != gone},
             'prompt': None, 'schedule': None, 'deleted': gone}
        r = realcamp.run_variant(v)
        ctx.case()
        ctx.count('cli_multiform:broken_position_' + str(fs.index(broken)))
        if r.exc is None and not r.verdict:
            ctx.nt({'f': fs, 'g': gone, 'i': v['inputs']})
        cli_text_check(ctx, v, r)
    hyp.run_data(body, n, seed)


def run(ctx):
    quick = ctx.tier == 'quick'
    hyp.pmap(ctx, shard_cli_multiform, [((64 if quick else 1600) // 4, ctx.seed * 1000 + 900 + k) for k in range(4)])
    campaign.campaign(ctx, ['C01'], 1500 if quick else 20000, bad_refs_share=0.25, scheduled=False, rule='c01')
    n = 300 if quick else 5000
    shards = 6 if quick else 16
    hyp.pmap(ctx, shard_real, [(n // shards, ctx.seed * 1000 + 500 + k) for k in range(shards)])


def replay(ctx, case):
    if 'program' in case:
        campaign.replay_case(ctx, ['C01'], case)
        return
    v = case['variant']
    r = realcamp.run_variant(v)
    realcamp.check_variant(ctx, ['C01'], v, r)
    if str(case.get('cli')) or True:
        cli_text_check(ctx, v, r)
