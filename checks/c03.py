"""C03 — every value in a solution is a fixed point of its line definition.

Every solve (generated programs and real returns; complete and partial; under
drawn schedules) is re-evaluated line by line on recording wrappers of the
final stores: each stored value must equal what its own definition returns
now (same type, ==), must equal the reference model's value for programs, and
the solution text re-read through Field.from_string must give it back."""
from hypothesis import strategies as st

from hx import campaign, closure, hyp, realcamp, scenario, solve

PROPERTY = 'C03'
LEVEL = 'exploration'
RULE = ('generated programs (diamonds, lines read by several dependants, operands unknown at first attempt) and real '
        '2021-2023 returns (full / deleted keys / prompts / gates) solved under random, reversed and natural schedules; '
        'every stored line is re-evaluated on the final stores. Non-trivial = a solve in which at least one stored line was '
        'attempted twice or more (it waited) ; distinct = hash of (program|return variant, schedule)'
        ' Also: table-edge returns (taxable income exactly on a Tax Table row edge, a few dollars of qualified dividends), and every stored line evaluated once more in descending and shuffled order after an unrelated return was solved in the same process (definitions have no hidden state).'
        ' Third pass: every stored line evaluated on freshly constructed form objects (state kept in a form object, closure or generator).')
ASSUMPTIONS = ['re-evaluating a definition on the final stores is the definition\'s value (definitions have no hidden state)']
KINDS = ['full', 'full', 'delete', 'prompt_total', 'prompt_refuse', 'gates']


def reread_check(ctx, r, case, where):
    """solution text -> Field.from_string -> equals the stored value"""
    if r.solution is None:
        return
    fm = r.solver._field_map
    for sec, d in r.solution.items():
        for k, text in d.items():
            name = f'{sec}.{k}'
            stored = r.values[name]
            try:
                back = fm[name].from_string(text)
            except Exception as e:
                ctx.violation(f'{where}:reread-raises:{type(e).__name__}', f'{name}: from_string({text!r}) raises {e!r} (stored {stored!r})', case)
                return
            ok = (back.strip() == stored.strip()) if isinstance(stored, str) and isinstance(back, str) else closure.same_value(back, stored)
            if not ok:
                ctx.violation(f'{where}:reread-differs', f'{name}: solution text {text!r} reads back as {back!r}, stored value is {stored!r}', case)
                return


def order_check(ctx, r, case, where, seed):
    """every stored line evaluated once more on the final stores, in descending order of names and in an order
    shuffled from `seed` (a drawn integer): a definition whose result depends on what was evaluated before it
    (a memo, a cache, a "last row" hint) is not a function of the values it reads"""
    import random
    s = r.solver
    names = sorted(n for n in r.values if n in s._field_map)
    shuffled = list(names)
    random.Random(seed).shuffle(shuffled)
    for label, order in (('descending', names[::-1]), ('shuffled', shuffled)):
        for name in order:
            out, val, _ = closure.eval_line(s._field_map[name], s._i, s._v)
            if out != 'value' or not closure.same_value(val, r.values[name]):
                ctx.violation(f'{where}:order-dependent:{name.split(".")[0].split(":")[0]}.{name.split(".")[1]}',
                              f'{name} is stored as {r.values[name]!r}; evaluated again on the same final stores in {label} order its definition gives {out} {val!r}', case)
                return
    ctx.count('order_check_lines', 2 * len(names))
    # third pass: freshly constructed form objects (new definitions, new closures) evaluated on the same final stores.
    # State a definition keeps in its own form object (a partly filled cache, an exhausted generator) is then gone
    import habutax.form as hform
    fresh = {}
    fresh_inputs = {}
    for fname, f in s.forms.items():
        try:
            base_, inst_ = hform.name_and_instance(fname)
            nf = type(f)(instance=inst_, solver=s)
            fresh[fname] = {fl.name(): fl for fl in nf.fields()}
            fresh_inputs.update({inp.name(): inp for inp in nf.inputs()})
        except Exception:
            fresh[fname] = None
    nfresh = 0
    import enum as pyenum
    import habutax.inputs as hinputs
    fi = hinputs.InputStore(s._i.config)          # same file contents, input specifications of the fresh forms
    specs = dict(fresh_inputs)
    for iname, inp in s._input_map.items():
        specs.setdefault(iname, inp)
    fi.update_input_spec(specs)

    def same_(a, b):
        # enumerations built per form object (W-2 box 12 codes) are equal when class name, member name and value agree
        if isinstance(a, pyenum.Enum) and isinstance(b, pyenum.Enum):
            return (type(a).__name__, a.name, a.value) == (type(b).__name__, b.name, b.value)
        return closure.same_value(a, b)
    for name in names:
        fl = (fresh.get(name.split('.')[0]) or {}).get(name)
        if fl is None:
            continue
        out, val, _ = closure.eval_line(fl, fi, s._v)
        nfresh += 1
        if out != 'value' or not same_(val, r.values[name]):
            ctx.violation(f'{where}:state-in-form-object:{name.split(".")[0].split(":")[0]}.{name.split(".")[1]}',
                          f'{name} is stored as {r.values[name]!r}; a freshly constructed copy of its form evaluates the same definition on the same final stores to {out} {val!r}', case)
            return
    ctx.count('fresh_definition_lines', nfresh)


def extra_prog(ctx, program, r, m, case):
    if r.exc is None:
        reread_check(ctx, r, case, 'prog')


def shard_real(ctx, k, payload):
    n, seed = payload

    previous = []     # the return solved just before this one in the same process

    def body(data):
        p = data.draw(scenario.personas())
        edge = data.draw(st.integers(0, 3)) == 0
        if edge:
            p.update(n_div=max(1, p['n_div']), n_w2=max(1, p['n_w2']))
        sc, r_ = scenario.build(p, data.draw)
        if edge and r_.exc is None and r_.verdict and 'w-2:0.box_1' in sc['inputs'] and '1099-div:0.box_1a' in sc['inputs']:
            # table-edge return: a few dollars of qualified dividends and a taxable income exactly on the edge of a
            # Tax Table row, so that two lookups of one return fall into neighbouring rows (any state a lookup leaves
            # behind then shows as a stored value that its definition does not reproduce)
            q = data.draw(st.sampled_from(['1.00', '20.00', '49.00', '50.00']))
            cur = dict(sc['inputs'], **{'1099-div:0.box_1a': q, '1099-div:0.box_1b': q})
            for k_ in list(cur):
                if k_.startswith('1099-div:') and k_.endswith(('.box_2a',)) or (k_.startswith('1099-div:') and not k_.startswith('1099-div:0.') and k_.endswith(('.box_1a', '.box_1b'))):
                    cur[k_] = '0'
            target = None
            pol = scenario.Policy(p, data.draw)
            for _ in range(3):
                rr = scenario.resolve({'year': sc['year'], 'forms': sc['forms'], 'inputs': cur}, answer_fn=lambda inp, nb: pol.answer(inp), want_solution=False)
                cur = solve.config_to_dict(rr.store.config)      # with the answers the changed return needed
                if rr.exc is not None or not rr.verdict or not isinstance(rr.values.get('1040.15'), float):
                    break
                t15 = rr.values['1040.15']
                if target is None:
                    target = (int(t15 // 50) + data.draw(st.integers(0, 2))) * 50.0
                if t15 == target:
                    sc = dict(sc, inputs=cur)
                    ctx.count('real:table_edge_returns')
                    break
                nw = round(float(cur['w-2:0.box_1'].strip() or 0) + (target - t15), 2)
                if nw < 0:
                    break
                cur['w-2:0.box_1'] = f'{nw:.2f}'
        v = realcamp.make_variant(data.draw, sc, KINDS if not edge else ['full'])
        v['schedule'] = {'seed': data.draw(st.integers(0, 2 ** 32)),
                         'mode': data.draw(st.sampled_from(['random', 'random', 'reverse', 'identity']))}
        r = realcamp.run_variant(v)
        ctx.case()
        labels, c = realcamp.check_variant(ctx, ['C03'], v, r)
        for l in labels:
            ctx.count('real:' + l)
        if r.exc is None:
            reread_check(ctx, r, {'variant': v}, 'real')
            case_o = {'variant': v, 'order_seed': v['schedule']['seed']}
            if previous:
                # another, unrelated return is solved in between: whatever a definition keeps outside the stores
                # (module-level memo, last-row hint) is moved before the lines are evaluated again
                realcamp.run_variant(previous[-1])
                case_o['solved_in_between'] = previous[-1]
                ctx.count('order_check_with_unrelated_solve_in_between')
            order_check(ctx, r, case_o, 'real', v['schedule']['seed'])
            if v['prompt'] is None:
                previous[:] = [dict(v, schedule=None)]
            waited = sum(1 for name, nn in r.trace.attempt_counts().items() if nn >= 2 and name in r.values)
            ctx.count('stored_lines_rechecked', len(r.values))
            ctx.count('stored_lines_that_waited', waited)
            if waited:
                ctx.nt({'y': v['year'], 'f': v['forms'], 'i': v['inputs'], 'p': v['prompt'], 's': v['schedule']})
            if len(ctx.samples) < 4 and waited:
                ex = sorted((nn, name) for name, nn in r.trace.attempt_counts().items() if nn >= 2 and name in r.values)[-3:]
                ctx.sample({'year': v['year'], 'forms': v['forms'], 'variant': v['kind'], 'schedule': v['schedule'],
                            'stored_lines': len(r.values), 'lines_that_waited': waited,
                            'examples(attempts, line, value)': [(nn, name, r.values[name]) for nn, name in ex]})
    hyp.run_data(body, n, seed)


def run(ctx):
    quick = ctx.tier == 'quick'
    shards = 4 if quick else 16
    n_p = 1000 if quick else 20000
    payloads = [(('C03',), n_p // shards, ctx.seed * 1000 + k, False, True, 'c03') for k in range(shards)]
    hyp.pmap(ctx, shard_prog, payloads)
    n = 200 if quick else 5000
    shards = 6 if quick else 16
    hyp.pmap(ctx, shard_real, [(n // shards, ctx.seed * 1000 + 300 + k) for k in range(shards)])


def shard_prog(ctx, k, payload):
    props, n, seed, bad, scheduled, rule = payload

    def body(data):
        from hx import progs
        program = data.draw(progs.programs(bad_refs=False))
        sd = {'seed': data.draw(st.integers(0, 2 ** 32)), 'mode': data.draw(st.sampled_from(['random', 'random', 'reverse', 'identity']))}
        campaign.run_case(ctx, props, program, sched_desc=sd, label_rule=campaign.RULES['c03'], extra_check=extra_prog)
    hyp.run_data(body, n, seed)


def replay(ctx, case):
    if 'program' in case:
        campaign.run_case(ctx, ['C03'], case['program'], sched_desc=case.get('schedule'), extra_check=extra_prog)
        return
    v = case['variant']
    r = realcamp.run_variant(v)
    realcamp.check_variant(ctx, ['C03'], v, r)
    if r.exc is None:
        reread_check(ctx, r, case, 'real')
        if case.get('solved_in_between'):
            realcamp.run_variant(case['solved_in_between'])
        order_check(ctx, r, case, 'real', case.get('order_seed', 0))
