"""C03 — every value in a solution is a fixed point of its line definition.

Every solve (generated programs and real returns; complete and partial; under
drawn schedules) is re-evaluated line by line on recording wrappers of the
final stores: each stored value must equal what its own definition returns
now (same type, ==), must equal the reference model's value for programs, and
the solution text re-read through Field.from_string must give it back."""
from hypothesis import strategies as st

from hx import campaign, closure, hyp, realcamp, scenario, solve

PROPERTY = 'C03'
LEVEL = 'exploration'
RULE = ('generated programs (diamonds, lines read by several dependants, operands unknown at first attempt) and real '
        '2021-2023 returns (full / deleted keys / prompts / gates) solved under random, reversed and natural schedules; '
        'every stored line is re-evaluated on the final stores. Non-trivial = a solve in which at least one stored line was '
        'attempted twice or more (it waited) ; distinct = hash of (program|return variant, schedule)')
ASSUMPTIONS = ['re-evaluating a definition on the final stores is the definition\'s value (definitions have no hidden state)']
KINDS = ['full', 'full', 'delete', 'prompt_total', 'prompt_refuse', 'gates']


def reread_check(ctx, r, case, where):
    """solution text -> Field.from_string -> equals the stored value"""
    if r.solution is None:
        return
    fm = r.solver._field_map
    for sec, d in r.solution.items():
        for k, text in d.items():
            name = f'{sec}.{k}'
            stored = r.values[name]
            try:
                back = fm[name].from_string(text)
            except Exception as e:
                ctx.violation(f'{where}:reread-raises:{type(e).__name__}', f'{name}: from_string({text!r}) raises {e!r} (stored {stored!r})', case)
                return
            ok = (back.strip() == stored.strip()) if isinstance(stored, str) and isinstance(back, str) else closure.same_value(back, stored)
            if not ok:
                ctx.violation(f'{where}:reread-differs', f'{name}: solution text {text!r} reads back as {back!r}, stored value is {stored!r}', case)
                return


def extra_prog(ctx, program, r, m, case):
    if r.exc is None:
        reread_check(ctx, r, case, 'prog')


def shard_real(ctx, k, payload):
    n, seed = payload

    def body(data):
        p = data.draw(scenario.personas())
        sc, _ = scenario.build(p, data.draw)
        v = realcamp.make_variant(data.draw, sc, KINDS)
        v['schedule'] = {'seed': data.draw(st.integers(0, 2 ** 32)),
                         'mode': data.draw(st.sampled_from(['random', 'random', 'reverse', 'identity']))}
        r = realcamp.run_variant(v)
        ctx.case()
        labels, c = realcamp.check_variant(ctx, ['C03'], v, r)
        for l in labels:
            ctx.count('real:' + l)
        if r.exc is None:
            reread_check(ctx, r, {'variant': v}, 'real')
            waited = sum(1 for name, nn in r.trace.attempt_counts().items() if nn >= 2 and name in r.values)
            ctx.count('stored_lines_rechecked', len(r.values))
            ctx.count('stored_lines_that_waited', waited)
            if waited:
                ctx.nt({'y': v['year'], 'f': v['forms'], 'i': v['inputs'], 'p': v['prompt'], 's': v['schedule']})
            if len(ctx.samples) < 4 and waited:
                ex = sorted((nn, name) for name, nn in r.trace.attempt_counts().items() if nn >= 2 and name in r.values)[-3:]
                ctx.sample({'year': v['year'], 'forms': v['forms'], 'variant': v['kind'], 'schedule': v['schedule'],
                            'stored_lines': len(r.values), 'lines_that_waited': waited,
                            'examples(attempts, line, value)': [(nn, name, r.values[name]) for nn, name in ex]})
    hyp.run_data(body, n, seed)


def run(ctx):
    quick = ctx.tier == 'quick'
    shards = 4 if quick else 16
    n_p = 1000 if quick else 20000
    payloads = [(('C03',), n_p // shards, ctx.seed * 1000 + k, False, True, 'c03') for k in range(shards)]
    hyp.pmap(ctx, shard_prog, payloads)
    n = 200 if quick else 5000
    shards = 6 if quick else 16
    hyp.pmap(ctx, shard_real, [(n // shards, ctx.seed * 1000 + 300 + k) for k in range(shards)])


def shard_prog(ctx, k, payload):
    props, n, seed, bad, scheduled, rule = payload

    def body(data):
        from hx import progs
        program = data.draw(progs.programs(bad_refs=False))
        sd = {'seed': data.draw(st.integers(0, 2 ** 32)), 'mode': data.draw(st.sampled_from(['random', 'random', 'reverse', 'identity']))}
        campaign.run_case(ctx, props, program, sched_desc=sd, label_rule=campaign.RULES['c03'], extra_check=extra_prog)
    hyp.run_data(body, n, seed)


def replay(ctx, case):
    if 'program' in case:
        campaign.run_case(ctx, ['C03'], case['program'], sched_desc=case.get('schedule'), extra_check=extra_prog)
        return
    v = case['variant']
    r = realcamp.run_variant(v)
    realcamp.check_variant(ctx, ['C03'], v, r)
    if r.exc is None:
        reread_check(ctx, r, case, 'real')
