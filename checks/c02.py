"""C02 — every computed line equals what the official form instructs for it.

The instruction for a line is parsed (hx/instr.py) from the text the bundled
template prints for the widget the line is mapped to (XFA <speak>), or from a
cited transcription in the same wording (data/instructions_transcribed.json).
(A) isolated closed-line fuzzing: a line whose definition reads nothing but the
    instruction's operand lines is evaluated directly on generated operands;
(B) end-to-end: every parsed line of every solved real return is recomputed
    from the other lines of the same solution, and carried amounts are equal on
    both ends."""
import json
import os
import re
from collections.abc import Mapping

from hypothesis import strategies as st

import habutax.fields as hf
import habutax.form as hform

from hx import catalog, hyp, instr, pdf, scenario

PROPERTY = 'C02'
LEVEL = 'exploration'
RULE = ('instructions parsed from template text / cited transcription (add, combine, subtract [floor], conditional subtract, multiply by '
        'rate/amount/line, smaller/larger, copy, divide, carry-out). (A) isolated: per parsed closed line, generated operand tuples (cents, '
        'equal/greater/less boundary cases); (B) end-to-end: solved 2021-2023 returns of all statuses. A check instance is non-trivial when '
        'its operands are not all zero; for floor/conditional sentences both branches are counted separately; distinct = (year, form, line, '
        'operand tuple). Unparsed sentences are listed, never guessed'
        ' Statement totals: sentences that total boxes of payer statements ("Add the amounts in box 4 of all Forms 1099-R, 1099-DIV, 1099-INT, and 1099-G", transcribed with source; "from Form W-2, box 5" read from the template) are evaluated on the input file, and half of the generated returns are completed so that every such box is filled on every copy. `Figure the tax on line N` is evaluated with the harness\' own rate-schedule reference; status-dependent divisors are checked in isolation with a drawn filing status.'
        ' Schedule B lines 2/6 against the payer statements; lines recorded as closed at the pinned tree (data/closed_lines.json) must not read beyond their instruction; payer-mix and credits-over-tax personas.')
ASSUMPTIONS = ['"A through B" ranges expand over the form\'s own ordered numeric mapped lines',
               'a sentence with an unrecognised conditional clause is unparsed (no verdict)',
               'plain "Subtract A from B" is only compared when B >= A (sign conventions of blank sections are C15\'s subject)',
               'absent optional lines/forms count as blank = 0']

HERE = os.path.dirname(os.path.dirname(os.path.abspath(__file__)))
with open(os.path.join(HERE, 'data', 'instructions_transcribed.json')) as _f:
    TRANSCRIBED = json.load(_f)

LABEL = re.compile(r'^\d+[a-z]?$')


class NotClosed(Exception):
    pass


class OperandStore(Mapping):
    def __init__(self, values, prefix):
        self.values = values
        self.prefix = prefix
        self.read = set()

    def __getitem__(self, key):
        form, base = key.split('.', 1)
        if form != self.prefix or base not in self.values:
            raise NotClosed(key)
        self.read.add(base)
        return self.values[base]

    def __iter__(self):
        return iter(self.values)

    def __len__(self):
        return len(self.values)


class NoInputs(Mapping):
    def __getitem__(self, key):
        raise NotClosed('input ' + key)

    def __iter__(self):
        return iter(())

    def __len__(self):
        return 0


_INSTR_CACHE = {}
try:
    with open(os.path.join(HERE, 'data', 'closed_lines.json')) as _f:
        CLOSED_AT_PINNED_TREE = set(json.load(_f)['closed'])
except FileNotFoundError:
    CLOSED_AT_PINNED_TREE = set()


def instructions_for(year, fname, form, cat):
    """{line label: (Instr, source)} for one form instance"""
    key = (year, fname)
    if key in _INSTR_CACHE:
        return _INSTR_CACHE[key]
    out = {}
    unparsed = {}
    base = fname.split(':')[0]
    labels = []
    texts = {}
    if form.pdf_fields() and form.pdf_file():
        xf = pdf.xfa_fields(form.pdf_file())
        for m in form.pdf_fields():
            ln = m.field_name
            if '.' in ln or not LABEL.match(ln):
                continue
            line = cat.lines.get(f'{fname}.{ln}')
            if line is None or catalog.line_kind(line) not in ('float', 'int'):
                continue
            if ln not in labels:
                labels.append(ln)
                sp = xf.get(m.pdf_field_name, {}).get('speak')
                if sp:
                    texts[ln] = (sp, 'template')
    tr = TRANSCRIBED.get('all', {}).get(base, {})
    tr = dict(tr, **TRANSCRIBED.get(str(year), {}).get(base, {}))
    names = tr.get('_names', {})
    ws_label = {}
    for ln, entry in tr.items():
        if ln.startswith('_'):
            continue
        if f'{fname}.{ln}' in cat.lines:
            lab = entry.get('label', ln)
            ws_label[ln] = lab
            texts[ln] = (f'{lab}. ' + entry['text'], 'transcribed: ' + entry['source'])
            if ln not in labels:
                labels.append(ln)
    if base == 'nc_d-400' and form.pdf_file():
        for ln, text in nc_page_sentences(form.pdf_file()).items():
            texts[ln] = (f'{ln}. ' + text, 'template page text (ToUnicode)')
            if ln not in labels:
                labels.append(ln)
    order = tr.get('_order') or labels
    for ln, (text, src) in texts.items():
        ins = instr.parse(text, ws_label.get(ln, ln), order)
        if ins is not None and names and ln in ws_label and src.startswith('transcribed'):
            # worksheet numbering -> the line names the form uses
            ins.expr = instr.rename(ins.expr, lambda l: names.get(l, l))
        if ins is not None and ins.expr is not None and ins.expr[0] == 'addrows':
            # "Add the amounts on line 1": the per-payer rows <n>_amount_<k> of this form
            rows = sorted((l.base_name() for l in form.fields() if re.match(rf'^{ins.expr[1]}_amount_\d+$', l.base_name())),
                          key=lambda x: int(x.rsplit('_', 1)[1]))
            if not rows:
                ins = None
            else:
                ins.expr = ('add', rows)
        if ins is not None:
            out[ln] = (ins, src)
        else:
            unparsed[ln] = instr.normalise(text)[:120]
    _INSTR_CACHE[key] = (out, unparsed)
    return out, unparsed


def nc_page_sentences(path):
    """instructions witnessed on the D-400 page itself (decoded through the
    embedded ToUnicode maps): where lines 7 and 9 come from, and line 15"""
    full = '\n'.join(pdf.page_texts(path))
    out = {}
    for ln, part, ref in re.findall(r'(\d+)\.\s*\(From Form D-400 Schedule S, Part ([AB]), Line (\d+)\)', full):
        out[ln] = f'Enter the amount from Form D-400 Schedule S, line {ref}.'
    m = re.search(r'Multiply Line 14 by ([\d.]+)% \((0\.\d+)\)\. If zero or less, enter a zero\.', full)
    if m:
        out['15'] = m.group(0)
    return out


def tolerance(line):
    places = getattr(line, '_places', 2)
    if places > 2:
        return 0.6 * 10 ** -places
    return 0.6 if places == 0 else (0.006 if places == 2 else 0.06)


# ---------------------------------------------------------------------------
# (A) isolated
def operand_values(draw, ins, line_kinds):
    ops = ins.operands()
    vals = {}
    for o in ops:
        if line_kinds.get(o) == 'int':
            vals[o] = draw(st.integers(0, 6))
        else:
            vals[o] = draw(st.one_of(st.sampled_from([0.0, 0.01, 100.0, 1234.56, 99999.99]),
                                     st.integers(0, 50000000).map(lambda c: c / 100.0)))
    e = ins.expr
    if e[0] == 'divstatus':
        vals['__status__'] = draw(st.sampled_from(['Single', 'MarriedFilingJointly', 'MarriedFilingSeparately', 'HeadOfHousehold', 'QSS']))
        return vals
    if e[0] == 'roundup':
        inner = e[1]
        a, b = inner[1], inner[2]
        mode = draw(st.sampled_from(['free', 'multiple', 'multiple', 'just_above', 'below']))
        if mode == 'multiple':
            vals[b] = round(vals[a] + 1000.0 * draw(st.integers(0, 40)), 2)
        elif mode == 'just_above':
            vals[b] = round(vals[a] + 1000.0 * draw(st.integers(0, 40)) + draw(st.sampled_from([0.01, 1.0, 425.0, 999.99])), 2)
        elif mode == 'below':
            vals[b] = round(max(0.0, vals[a] - draw(st.integers(0, 5000))), 2)
        return vals
    if e[0] == 'floor0' and draw(st.booleans()):
        for o in ops:
            if line_kinds.get(o) != 'int':
                vals[o] = -vals[o]
    if e[0] in ('sub', 'condsub', 'min', 'max') and len(ops) == 2:
        a, b = e[1], e[2]
        mode = draw(st.sampled_from(['free', 'equal', 'a_bigger', 'b_bigger', 'cent']))
        if line_kinds.get(a) != 'int' and line_kinds.get(b) != 'int':
            if mode == 'equal':
                vals[b] = vals[a]
            elif mode == 'a_bigger':
                vals[a] = round(vals[b] + draw(st.integers(1, 100000)) / 100.0, 2)
            elif mode == 'b_bigger':
                vals[b] = round(vals[a] + draw(st.integers(1, 100000)) / 100.0, 2)
            elif mode == 'cent':
                vals[b] = round(vals[a] + 0.01, 2)
        if e[0] == 'sub' and e[3] is None and vals[b] < vals[a]:
            vals[a], vals[b] = vals[b], vals[a]
    if e[0] == 'div1':
        if vals[e[2]] == 0:
            vals[e[2]] = 1.0
    return vals


class StatusInputs(Mapping):
    """an input store that knows the filing status and nothing else"""
    def __init__(self, member):
        self.member = member

    def __getitem__(self, key):
        if key == '1040.filing_status':
            return self.member
        raise NotClosed('input ' + key)

    def __iter__(self):
        return iter(())

    def __len__(self):
        return 0


def check_isolated(ctx, year, fname, ln, line, ins, src, vals):
    status = vals.get('__status__')
    vals = {k_: v_ for k_, v_ in vals.items() if k_ != '__status__'}
    store = OperandStore(vals, fname)
    form = line.form()
    istore = NoInputs()
    if status is not None:
        spec = catalog.get(year).inputs.get('1040.filing_status')
        istore = StatusInputs(spec.enum[scenario.status_name(year, status)])
    try:
        got = line.value(hform.FormAccessor(istore, form), hform.FormAccessor(store, form))
    except NotClosed:
        return 'not_closed'
    except hf.FieldNotImplemented:
        return 'not_implemented'
    except (ZeroDivisionError, TypeError, ValueError, OverflowError):
        return 'data_error'
    want = instr.evaluate(ins.expr, lambda l: float(vals[l]), status=status)
    if want is None:
        return 'na'
    ctx.case()
    if status is not None:
        vals = dict(vals, __status__=status)
    alt = None
    if ins.expr[0] == 'roundup':
        # binary floating point: 4234.56 - 1234.56 is 3000.0000000000005; a definition working in floats may
        # legitimately see "not a multiple" there. Both readings of such an operand pair are accepted.
        import math
        inner = ins.expr[1]
        d_ = float(vals[inner[2]]) - float(vals[inner[1]])
        alt = 0.0 if d_ <= 0 else math.ceil(d_ / ins.expr[2]) * ins.expr[2]
    if abs(float(got) - want) > tolerance(line) and not (alt is not None and abs(float(got) - alt) <= tolerance(line)):
        base = fname.split(':')[0]
        ctx.violation(f'{year}:{base}.{ln}', f'{year} {fname} line {ln}: instruction "{ins.text[:110]}" [{src}] gives {want:.2f} on {vals}, the definition returns {got}',
                      {'mode': 'isolated', 'year': year, 'form': fname, 'line': ln, 'operands': vals})
    if any(v != 0 for v in vals.values()):
        branch = ''
        if ins.expr[0] in ('sub', 'condsub'):
            branch = '|floor' if vals[ins.expr[2]] <= vals[ins.expr[1]] else '|pos'
        if ins.expr[0] == 'floor0':
            branch = '|floor' if want == 0 else '|pos'
        if ins.expr[0] == 'roundup':
            d_ = vals[ins.expr[1][2]] - vals[ins.expr[1][1]]
            branch = '|floor' if d_ <= 0 else ('|exact-multiple' if round(d_ * 100) % 100000 == 0 else '|rounded-up')
        ctx.nt(f'{year}|{fname}|{ln}|{sorted(vals.items())}')
        ctx.note('lines_checked_nontrivially', f'{year}:{fname.split(":")[0]}.{ln}{branch}')
    return 'checked'


class SentinelStore(Mapping):
    """line reads: every line of `src_form` answers with a recognisable value of
    its own; other lines are drawn by catalogue type"""
    def __init__(self, cat, owner, src_form, draw):
        self.cat, self.owner, self.src_form, self.draw = cat, owner, src_form, draw
        self.memo = {}
        self.sent = {}

    def sentinel(self, key):
        if key not in self.sent:
            self.sent[key] = 1000003.0 + 17.0 * len(self.sent)
        return self.sent[key]

    def __getitem__(self, key):
        from hx import mock
        form = key.split('.')[0]
        if form.split(':')[0] == self.src_form and ':' not in form:
            line = self.cat.lines.get(key)
            if line is None:
                raise NotClosed(key)
            if catalog.line_kind(line) in ('float',):
                return self.sentinel(key)
        if key not in self.memo:
            self.cat.ensure(form)
            line = self.cat.lines.get(key)
            if line is None:
                raise NotClosed(key)
            self.memo[key] = self.draw(mock.line_strategy(line, self.owner))
        return self.memo[key]

    def __iter__(self):
        return iter(self.memo)

    def __len__(self):
        return len(self.memo)


def check_copy_sentinel(ctx, year, cat, fname, ln, line, ins, src, draw):
    """'Enter the amount from <form>, line N': if the definition hands back, unchanged,
    a different line of that form than the instructed one, it carries the wrong line"""
    from hx import mock
    src_form, src_line = ins.expr[1], ins.expr[2]
    if src_form not in cat.cmap:
        return 'source_form_not_catalogued'
    form = line.form()
    log = []
    mi = mock.MockStore('i', cat, form, draw, log)
    mv = SentinelStore(cat, form, src_form, draw)
    try:
        got = line.value(hform.FormAccessor(mi, form), hform.FormAccessor(mv, form))
    except (NotClosed, hf.FieldNotImplemented, mock.Unresolved, mock.AbsentForm):
        return 'no_verdict'
    except Exception:
        return 'no_verdict'
    ctx.case()
    want_key = f'{src_form}.{src_line}'
    inv = {v: k for k, v in mv.sent.items()}
    if got in inv:
        if inv[got] != want_key:
            base = fname.split(':')[0]
            ctx.violation(f'{year}:{base}.{ln}', f'{year} {fname} line {ln}: "{ins.text[:110]}" [{src}] but the definition carries {inv[got]} (inputs {[(k_, v_) for _, k_, v_ in log][:4]})',
                          {'mode': 'copy', 'year': year, 'form': fname, 'line': ln, 'reads': {f'i:{k_}': v_ for _, k_, v_ in log}})
        else:
            ctx.nt(f'{year}|{fname}|{ln}|copy|{[(k_, v_) for _, k_, v_ in log]}')
            ctx.note('lines_checked_nontrivially', f'{year}:{fname.split(":")[0]}.{ln}|carried')
        return 'checked'
    return 'no_verdict'


def shard_isolated(ctx, k, payload):
    year, fnames, n, seed = payload
    cat = catalog.get(year)
    for fname in fnames:
        form = cat.forms[fname]
        instrs, unparsed = instructions_for(year, fname, form, cat)
        for ln, text in unparsed.items():
            ctx.note('unparsed', f'{year}:{fname.split(":")[0]}.{ln}: {text}')
        kinds = {l.base_name(): catalog.line_kind(l) for l in form.fields()}
        for ln, (ins, src) in sorted(instrs.items()):
            ctx.count('parsed:' + ('template' if src == 'template' else 'transcribed'))
            line = cat.lines[f'{fname}.{ln}']
            if ins.expr is not None and ins.expr[0] == 'copy' and ins.expr[1] is not None:
                res = set()

                def body_c(data, ln=ln, ins=ins, src=src, line=line):
                    res.add(check_copy_sentinel(ctx, year, cat, fname, ln, line, ins, src, data.draw))
                hyp.run_data(body_c, n, seed)
                ctx.count('isolated:copy_lines_' + ('checked' if 'checked' in res else 'no_verdict'))
                continue
            if ins.expr is None:
                continue
            outcomes = set()

            def body(data, ln=ln, ins=ins, src=src, line=line):
                vals = operand_values(data.draw, ins, kinds)
                outcomes.add(check_isolated(ctx, year, fname, ln, line, ins, src, vals))
            hyp.run_data(body, n, seed)
            key_ = f'{year}:{fname.split(":")[0]}.{ln}'
            if key_ in CLOSED_AT_PINNED_TREE and 'not_closed' in outcomes:
                # the definition used to need nothing but the lines its instruction names, on every path; now it reads something else
                ctx.violation(f'{key_}:reads-beyond-instruction', f'{year} {fname} line {ln}: its instruction ("{ins.text[:110]}") names {ins.operands()}; the definition, '
                              f'which used to be computable from exactly those, now reads another line or input', {'mode': 'closed', 'year': year, 'form': fname, 'line': ln})
            if 'checked' in outcomes:
                ctx.count('isolated:closed_lines')
                if 'not_closed' not in outcomes:
                    ctx.note('closed_lines', key_)
            else:
                ctx.count('isolated:not_closed_lines')
                ctx.note('not_closed', f'{key_} ({sorted(outcomes)})')
                pass

# ---------------------------------------------------------------------------
# (B) end to end
def statement_sum(r, groups):
    """total of the named boxes over every copy of the named payer statements, read from the *input file* of the
    run (what the user typed from the paper forms), not from the lines the solver happened to evaluate"""
    cfg = r.store.config
    total = 0.0
    nbox = 0
    for form, boxes in groups:
        try:
            n = int(cfg.get('1040', f'number_{form}').strip())
        except Exception:
            n = 0
        for c in range(n):
            sec = f'{form}:{c}'
            for b in boxes:
                if cfg.has_option(sec, b):
                    t = cfg.get(sec, b).strip()
                    try:
                        total += float(t) if t else 0.0
                        nbox += 1
                    except ValueError:
                        return None
    return total, nbox


def status_of(r):
    try:
        t = r.store.config.get('1040', 'filing_status').strip()
    except Exception:
        return None
    return 'QSS' if t.startswith('Qualifying') else t


def tax_fn(year, r):
    """the year's income tax for this return's filing status, from the harness' own rate-schedule reference"""
    from hx import taxref
    try:
        status = r.store.config.get('1040', 'filing_status').strip()
    except Exception:
        return None
    status = 'QSS' if status.startswith('Qualifying') else status
    if status not in taxref.STATUSES:
        return None

    def tax(amount):
        if amount < 0 or amount != amount:
            return None
        from fractions import Fraction
        want, _tol = taxref.reference(year, status, Fraction(str(round(amount, 2))))
        return float(want)
    return tax


def check_solution(ctx, year, r, case):
    cat = catalog.get(year)
    vals = r.values
    for fname in sorted(r.forms):
        cat.ensure(fname)
        form = cat.forms.get(fname)
        if form is None:
            continue
        instrs, _ = instructions_for(year, fname, form, cat)
        base = fname.split(':')[0]
        for ln, (ins, src) in instrs.items():
            name = f'{fname}.{ln}'
            if name not in vals:
                continue
            line = cat.lines[name]
            tol = tolerance(line)

            def get(l, fname=fname):
                v = vals.get(f'{fname}.{l}')
                return float(v) if v is not None else 0.0
            e = ins.expr
            if e is not None:
                skip = False
                if e[0] == 'copy' and e[1] is not None:
                    if ':' in fname:
                        skip = True
                    else:
                        src_form = e[1]
                        inst_present = [f for f in r.forms if f.split(':')[0] == src_form]
                        if any(':' in f for f in inst_present):
                            skip = True
                        want = float(vals.get(f'{src_form}.{e[2]}', 0.0) or 0.0)
                elif e[0] == 'capf':
                    want = statement_sum(r, e[1][1])
                    if want is None or ':' in fname:
                        skip = True
                    else:
                        want, nbox = want
                        tol = tol + 0.0051 * nbox
                        cap = float(vals.get(f'{e[2]}.{e[3]}', 0.0) or 0.0)
                        if cap < want - tol and abs(float(vals[name] or 0.0) - want) <= tol:
                            # the total is entered although the instruction limits it to another line: its own bucket
                            ctx.violation(f'{year}:{base}.{ln}:not-limited-to-{e[2]}.{e[3]}', f'{year} {fname} line {ln} holds the statement total {want:.2f}; its instruction limits it to '
                                          f'{e[2]} line {e[3]} = {cap:.2f} ("{ins.text[-100:]}" [{src[:60]}])', dict(case, mode='e2e', line=name))
                            skip = True
                        want = min(want, cap)
                elif e[0] == 'sumstmt':
                    want = statement_sum(r, e[1])
                    if want is None:
                        skip = True
                    else:
                        # each box is held in dollars and cents by its statement; text with sub-cent digits is rounded per box
                        want, nbox = want
                        tol = tol + 0.0051 * nbox
                elif e[0] == 'addf':
                    if ':' in fname or any(':' in f for f in r.forms if f.split(':')[0] == e[1]):
                        skip = True
                    want = sum(float(vals.get(f'{e[1]}.{l}', 0.0) or 0.0) for l in e[2])
                else:
                    if e[0] == 'sub' and e[3] is None and get(e[2]) < get(e[1]):
                        skip = True
                        ctx.count('e2e:plain_subtraction_negative_skipped')
                    want = None if skip else instr.evaluate(e, get, tax=tax_fn(year, r), status=status_of(r))
                if not skip and want is not None:
                    ctx.case()
                    got = float(vals[name]) if vals[name] is not None else 0.0
                    ops = ins.operands()
                    nz = any(get(o) != 0 for o in ops) or got != 0 or (e[0] == 'copy' and want != 0)
                    if abs(got - want) > tol:
                        opsd = {o: get(o) for o in ops}
                        ctx.violation(f'{year}:{base}.{ln}', f'{year} {fname} line {ln}: instruction "{ins.text[:110]}" [{src}] gives {want:.2f} from the solution ({opsd}), the line holds {got}',
                                      dict(case, mode='e2e', line=name))
                    if nz:
                        ctx.nt(f'{year}|{name}|{[get(o) for o in ops]}|{got}')
                        ctx.note('lines_checked_nontrivially', f'{year}:{base}.{ln}')
                    else:
                        ctx.note('lines_checked_only_trivially', f'{year}:{base}.{ln}')
            for (tform, tline) in ins.carry:
                if ':' in fname:
                    continue
                tname = f'{tform}.{tline}'
                cond = TRANSCRIBED.get('carry_conditions', {}).get(f'{base}.{ln}->{tname}')
                if cond and not vals.get(cond['line']):
                    continue
                if tname in vals:
                    ctx.case()
                    if abs(float(vals[tname]) - float(vals[name])) > max(tol, tolerance(cat.lines[tname])):
                        ctx.violation(f'{year}:carry:{base}.{ln}->{tname}', f'{year}: {name} = {vals[name]} is to be entered on {tname}, which holds {vals[tname]} ("{ins.text[-90:]}")',
                                      dict(case, mode='e2e', line=name))
                    if float(vals[name]) != 0:
                        ctx.nt(f'{year}|carry|{name}|{vals[name]}')


def check_includes(ctx, year, r, case):
    """'also include this amount on Form 1040, line 4b': the target holds at least
    the sum of all amounts that are to be included in it (amounts are non-negative)"""
    cat = catalog.get(year)
    vals = r.values
    sums = {}
    for fname in sorted(r.forms):
        cat.ensure(fname)
        form = cat.forms.get(fname)
        if form is None:
            continue
        instrs, _ = instructions_for(year, fname, form, cat)
        for ln, (ins, src) in instrs.items():
            name = f'{fname}.{ln}'
            if name in vals and isinstance(vals[name], float) and vals[name] > 0:
                for (tform, tline) in ins.include:
                    sums.setdefault(f'{tform}.{tline}', []).append((name, vals[name]))
    for target, parts in sums.items():
        if target in vals:
            ctx.case()
            total = sum(v for _, v in parts)
            if float(vals[target]) < total - 0.011:
                ctx.violation(f'{year}:include:{target}', f'{year}: {target} = {vals[target]} but the amounts that are to be included in it add up to {total:.2f} ({parts})',
                              dict(case, mode='e2e', line=target))
            ctx.nt(f'{year}|include|{target}|{parts}')
            ctx.note('lines_checked_nontrivially', f'{year}:{target}|includes')


def complete_statements(ctx, draw, sc, r):
    """answer-on-demand only ever fills the boxes the solver asked for. A taxpayer copies *every* box of a paper
    W-2/1099 into the file; boxes that an instruction tells to total are therefore filled in (drawn amounts) on
    every copy where the demand-driven build left them out, and the return is solved again"""
    cat = catalog.get(sc['year'])
    wanted = set()
    for fname in sorted(r.forms):
        cat.ensure(fname)
        form = cat.forms.get(fname)
        if form is None:
            continue
        instrs, _ = instructions_for(sc['year'], fname, form, cat)
        for ln, (ins, src) in instrs.items():
            if ins.expr is not None and ins.expr[0] in ('sumstmt', 'capf'):
                for sform, boxes in (ins.expr[1] if ins.expr[0] == 'sumstmt' else ins.expr[1][1]):
                    for b in boxes:
                        wanted.add((sform, b))
    inputs = dict(sc['inputs'])
    added = 0
    for sform, b in sorted(wanted):
        try:
            n = int(inputs.get(f'1040.number_{sform}', '0').strip() or 0)
        except ValueError:
            continue
        for c in range(n):
            key = f'{sform}:{c}.{b}'
            spec = cat.inputs.get(key)
            if key not in inputs and spec is not None and catalog.input_kind(spec) == 'float':
                inputs[key] = f'{draw(st.integers(0, 60000)) / 100.0:.2f}'
                added += 1
    if not added:
        return None, None
    sc2 = dict(sc, inputs=inputs)
    r2 = scenario.resolve(sc2, want_solution=False)
    ctx.count('e2e:statements_completed')
    if r2.exc is not None or not r2.verdict:
        ctx.count('e2e:completed_return_not_solved')
        return None, None
    return sc2, r2


def shard_e2e(ctx, k, payload):
    n, seed = payload

    def body(data):
        p = data.draw(scenario.personas())
        p['amount_bias'] = data.draw(st.sampled_from(['typical', 'typical', 'large', 'small']))
        if data.draw(st.integers(0, 5)) == 0:
            p.update(status='MarriedFilingJointly', ira='8606', n_r=2, both_spouses_1099r=True)
        elif data.draw(st.integers(0, 2)) == 0:
            # Schedule B with more dividend payers than interest payers (and the other way round)
            a_, b_ = data.draw(st.sampled_from([(0, 3), (1, 3), (1, 2), (0, 2), (3, 1), (3, 0)]))
            p.update(n_int=a_, n_div=b_, big_interest=True, amount_bias='large')
        elif data.draw(st.integers(0, 9)) == 0:
            # little or no tax and foreign tax paid on interest (credits that exceed the tax)
            p.update(n_w2=0, wage_level='low', n_int=3, n_div=0, n_r=0, huge_interest=True, foreign_tax=True, itemize=False,
                     amount_bias='large', deps=[], s199a=False, ira='none', n_g=0, s1_income=False)
        sc, r = scenario.build(p, data.draw)
        if r.exc is not None or not r.verdict:
            ctx.count('e2e:not_solved')
            return
        ctx.count('e2e:solved_returns')
        if data.draw(st.booleans()):
            sc2, r2 = complete_statements(ctx, data.draw, sc, r)
            if r2 is not None:
                sc, r = sc2, r2
        check_solution(ctx, sc['year'], r, {'scenario': scenario.slim(sc)})
        check_includes(ctx, sc['year'], r, {'scenario': scenario.slim(sc)})
        if len(ctx.samples) < 3:
            v = r.values
            ctx.sample({'year': sc['year'], 'forms': sorted(r.forms)[:8], 'example': {k_: v[k_] for k_ in ['1040.9', '1040.11', '1040.15', '1040.22', '1040.24'] if k_ in v}})
    hyp.run_data(body, n, seed)


def run(ctx):
    quick = ctx.tier == 'quick'
    n_iso = 30 if quick else 500
    payloads = []
    for year in catalog.YEARS:
        cat = catalog.get(year)
        fnames = sorted(f for f in cat.forms if ':' not in f or f.endswith((':you',)))
        for j in range(0, len(fnames), 4):
            payloads.append((year, fnames[j:j + 4], n_iso, ctx.seed * 977))
    hyp.pmap(ctx, shard_isolated, payloads)
    n = 960 if quick else 20000
    shards = 12 if quick else 16
    hyp.pmap(ctx, shard_e2e, [(n // shards, ctx.seed * 1000 + 200 + k) for k in range(shards)])


def replay(ctx, case):
    if case['mode'] == 'closed':
        cat = catalog.get(case['year'])
        shard_isolated(ctx, 0, (case['year'], [case['form']], 12, 977))
        return
    if case['mode'] == 'isolated':
        cat = catalog.get(case['year'])
        form = cat.forms[case['form']]
        instrs, _ = instructions_for(case['year'], case['form'], form, cat)
        ins, src = instrs[case['line']]
        check_isolated(ctx, case['year'], case['form'], case['line'], cat.lines[f'{case["form"]}.{case["line"]}'], ins, src, case['operands'])
        return
    if case['mode'] == 'copy':
        from hx import mock
        cat = catalog.get(case['year'])
        form = cat.forms[case['form']]
        instrs, _ = instructions_for(case['year'], case['form'], form, cat)
        ins, src = instrs[case['line']]
        line = cat.lines[f'{case["form"]}.{case["line"]}']
        rec = case['reads']

        def draw(strategy):
            raise mock.ReplayMiss('draw')
        log = []
        mi = mock.MockStore('i', cat, form, None, log, recorded=rec)
        mv = SentinelStore(cat, form, ins.expr[1], lambda s_: 0.0)
        try:
            got = line.value(hform.FormAccessor(mi, form), hform.FormAccessor(mv, form))
        except Exception:
            return
        inv = {v: k for k, v in mv.sent.items()}
        if got in inv and inv[got] != f'{ins.expr[1]}.{ins.expr[2]}':
            ctx.violation(f'{case["year"]}:{case["form"].split(":")[0]}.{case["line"]}', f'definition carries {inv[got]} instead of {ins.expr[1]}.{ins.expr[2]}', case)
        return
    sc = case['scenario']
    r = scenario.resolve(sc)
    if r.exc is None:
        check_solution(ctx, sc['year'], r, {'scenario': sc})
        check_includes(ctx, sc['year'], r, {'scenario': sc})
