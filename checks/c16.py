"""C16 — returns respond to input changes the way tax law requires.

Metamorphic relations on solved real returns: renumbering the copies of a
W-2/1099/1098 changes nothing but the order of per-payer listing lines; more
wages never lower total tax; a larger deductible expense never raises it; each
extra dollar withheld moves refund-minus-owed by exactly one dollar."""
import itertools
import re

from hypothesis import strategies as st

from hx import hyp, scenario, solve

PROPERTY = 'C16'
LEVEL = 'exploration'
RULE = ('solved 2021-2023 returns (answer-on-demand) x transformations: all permutations of the instance numbers of every input form '
        'with 2-3 copies; W-2 box_1 + delta; each deductible input (Schedule A amounts, Schedule 1 adjustments, HSA contribution, early '
        'withdrawal penalty) + delta; each withholding/payment input + delta; delta from cents to 1e5 and sized to cross brackets/floors. '
        'Pairs whose second return does not solve are dropped and counted. Non-trivial = a pair in which the transformed input is actually '
        'read and the compared quantity changes (for permutations: >= 2 copies with different contents); distinct = (base, transformation)'
        " Threshold sweep: AGI exactly on every literal/threshold of the participating forms and every multiple of $10,000 within reach, against AGI a little above it; deduction cliffs: every deductible input on every literal of its own form against a little above it (inputs only the second return demands are answered by the persona's policy).")
ASSUMPTIONS = ['money lines may differ by one cent after renumbering (float summation order); NC lines by one dollar (the state rounds each line)',
               'the listed deductible inputs are deductions under the law for the supported situations']

NUMBERED = ['w-2', '1099-int', '1099-div', '1099-r', '1099-g', '1098']
LISTING = re.compile(r'^1040_sb\.(1|5)_(payer|amount)_(\d+)$')

DEDUCTIBLE = [
    r'^1040_sa\.(medical_dental_expenses|state_local_real_estate_taxes|state_local_personal_property_taxes|other_taxes_amount|other_mortgage_interest|charitable_cash_check|charitable_other_than_cash_check|charitable_carryover|other_itemized)$',
    r'^1040_s1\.(alimony_paid|traditional_ira_deduction|other_adjustments_amount)$',
    r'^1099-int:\d+\.box_2$',
    r'^1098:\d+\.box_1$',
    r'^1040\.charitable_contributions_std_ded$',
]
WITHHOLDING = [r'^w-2:\d+\.box_2$', r'^1099-(int|div|r|g):\d+\.box_4$', r'^1040\.(other_federal_withholding|estimated_tax_payments)$']
WAGES = [r'^w-2:\d+\.box_1$']
# state withholding boxes and the box naming the state they were withheld for
NC_WITHHOLDING = [('w-2', 'box_17', 'box_15'), ('1099-r', 'box_14_1', 'box_14_1_state'), ('1099-r', 'box_14_2', 'box_14_2_state'),
                  ('1099-g', 'box_11_1', 'box_10a_1'), ('1099-int', 'box_17_1', 'box_15_1'), ('1099-div', 'box_16_1', 'box_14_1')]


def matches(key, pats):
    return any(re.match(p, key) for p in pats)


def fnum(x):
    return float(x) if isinstance(x, (int, float)) and not isinstance(x, bool) else 0.0


def solve_vals(sc, inputs, pol=None):
    # pol: inputs that only the changed return demands are answered by the persona's policy, as when it was built
    fn = (lambda inp, nb: pol.answer(inp)) if pol is not None else None
    r = scenario.resolve({'year': sc['year'], 'forms': sc['forms'], 'inputs': inputs}, answer_fn=fn, want_solution=False)
    if r.exc is not None or not r.verdict:
        return None
    return r


def renumber(inputs, form, perm):
    out = {}
    for k, v in inputs.items():
        sec, key = k.split('.', 1)
        if ':' in sec and sec.split(':')[0] == form and sec.split(':')[1].isdigit():
            n = int(sec.split(':')[1])
            if n < len(perm):
                sec = f'{form}:{perm[n]}'
        out[f'{sec}.{key}'] = v
    return out


def compare_renumbered(ctx, year, base, other, form, perm, case):
    bv, ov = base.values, other.values
    if set(k.split('.')[0] for k in bv) != set(k.split('.')[0] for k in ov):
        ctx.violation(f'perm:forms:{form}', f'{year}: renumbering {form} by {perm} changed the set of forms in the solution', case)
        return
    listing_b, listing_o = {}, {}
    for k, v in bv.items():
        sec = k.split('.')[0]
        if ':' in sec and sec.split(':')[0] in NUMBERED:
            continue
        m = LISTING.match(k)
        if m:
            listing_b.setdefault((m.group(1), m.group(3)), {})[m.group(2)] = v
            mo = ov.get(k)
            listing_o.setdefault((m.group(1), m.group(3)), {})[m.group(2)] = mo
            continue
        if k not in ov:
            ctx.violation(f'perm:missing:{k.split(".")[0].split(":")[0]}', f'{year}: {k} disappears when {form} copies are renumbered {perm}', case)
            return
        a, b = v, ov[k]
        tol = 1.01 if k.startswith('nc_') else 0.011
        same = (abs(a - b) <= tol) if isinstance(a, float) and isinstance(b, float) else (a == b or (hasattr(a, 'name') and hasattr(b, 'name') and a.name == b.name))
        if not same:
            base_k = k.split('.')[0].split(':')[0] + '.' + k.split('.')[1]
            ctx.violation(f'perm:value:{base_k}', f'{year}: {k} changes from {a!r} to {b!r} when the {form} copies are renumbered {perm}', case)
            return
    rows_b = sorted((part, str(d.get('payer')), round(fnum(d.get('amount')), 2)) for (part, n), d in listing_b.items() if d.get('payer') or fnum(d.get('amount')))
    rows_o = sorted((part, str(d.get('payer')), round(fnum(d.get('amount')), 2)) for (part, n), d in listing_o.items() if d.get('payer') or fnum(d.get('amount')))
    if rows_b != rows_o:
        ctx.violation('perm:listing-multiset', f'{year}: Schedule B rows differ as a multiset after renumbering {form} by {perm}: {rows_b[:3]} vs {rows_o[:3]}', case)
    # input form sections as a multiset
    def secs(vals):
        d = {}
        for k, v in vals.items():
            sec, key = k.split('.', 1)
            if sec.split(':')[0] == form and ':' in sec:
                d.setdefault(sec, {})[key] = (v.name if hasattr(v, 'name') else v)
        return sorted((sorted(x.items(), key=str) for x in d.values()), key=str)
    if secs(bv) != secs(ov):
        ctx.violation(f'perm:copies:{form}', f'{year}: the {form} copies are not the same multiset after renumbering', case)


def quantities(r):
    v = r.values
    q = {'tax24': fnum(v.get('1040.24')), 'net': fnum(v.get('1040.34')) - fnum(v.get('1040.37'))}
    if 'nc_d-400.19' in v:
        q['nc19'] = fnum(v.get('nc_d-400.19'))
        q['ncnet'] = fnum(v.get('nc_d-400.28')) - fnum(v.get('nc_d-400.26a'))
    return q


def shard(ctx, k, payload):
    n, nvar, seed = payload

    def body(data):
        p = data.draw(scenario.personas())
        p['n_w2'] = max(p['n_w2'], data.draw(st.sampled_from([1, 2, 3])))
        if data.draw(st.integers(0, 2)) == 0:
            # several payers with enough interest/dividends for Schedule B (per-payer listing lines)
            p.update(n_int=data.draw(st.sampled_from([1, 2, 3])), n_div=data.draw(st.sampled_from([0, 2, 3])), big_interest=True, amount_bias='large')
        if data.draw(st.integers(0, 7)) == 0:
            # wages above the Additional Medicare Tax threshold (Form 8959 then adds to the withholding of line 25c)
            p.update(status='Single', wage_level='high', n_w2=1, deps=[])
        if data.draw(st.integers(0, 5)) == 0:
            # an investor: qualified dividends far above the wages (taxable income below the preferential income)
            p.update(big_dividends=True, n_div=1, n_int=0, wage_level='low', n_w2=1, deps=[], s199a=False, itemize=False)
        if data.draw(st.integers(0, 5)) == 0:
            # state withholding on statements of both spouses (NC lines 20a/20b walk every payer statement)
            p.update(forms=['1040', 'nc_d-400'], status='MarriedFilingJointly', n_r=data.draw(st.sampled_from([2, 3])), both_spouses_1099r=True,
                     nc_withholding=True, n_1098=max(1, p['n_1098']), ira='none')
        sc, base = scenario.build(p, data.draw)
        if base.exc is not None or not base.verdict:
            ctx.count('base_not_solved')
            return
        year = sc['year']
        inputs = sc['inputs']
        ctx.count('bases')
        bq = quantities(base)
        pol = scenario.Policy(p, data.draw)
        read = {key for _, reads, _ in base.trace.attempts for kind, key, o, _v in reads if kind == 'i' and o == 'ok'}
        # two renumberings and two wage changes per return, and one change of EVERY withholding and deductible input
        # it has (a drawn sample of nvar when there are more)
        tasks = [('perm', None), ('perm', None), ('wage', None), ('wage', None)]
        wcands = sorted(k_ for k_ in inputs if matches(k_, WITHHOLDING))
        for form_, box_ in (('w-2', 'box_2'), ('1099-int', 'box_4'), ('1099-div', 'box_4'), ('1099-r', 'box_4'), ('1099-g', 'box_4')):
            try:
                n_ = int(inputs.get(f'1040.number_{form_}', '0').strip() or 0)
            except ValueError:
                n_ = 0
            wcands += [f'{form_}:{c_}.{box_}' for c_ in range(n_) if f'{form_}:{c_}.{box_}' not in inputs]
        more = [('withhold', k_) for k_ in sorted(set(wcands))] + [('deduct', k_) for k_ in sorted(k_ for k_ in inputs if matches(k_, DEDUCTIBLE))]
        if 'nc19' in bq:
            for form_, box_, st_ in NC_WITHHOLDING:
                for k_ in sorted(inputs):
                    if k_.startswith(form_ + ':') and k_.endswith('.' + st_) and inputs[k_].strip() == 'NC':
                        more.append(('ncwithhold', k_.rsplit('.', 1)[0] + '.' + box_))
        if len(more) > nvar * 2:
            more = data.draw(st.lists(st.sampled_from(more), min_size=nvar * 2, max_size=nvar * 2, unique=True))
        tasks += more
        for kind, preset in tasks:
            case = {'scenario': scenario.slim(sc), 'kind': kind}
            if kind == 'perm':
                forms = [f for f in NUMBERED if sum(1 for k_ in inputs if k_.startswith(f + ':1.')) > 0]
                if not forms:
                    ctx.count('perm:no_form_with_two_copies')
                    continue
                form = data.draw(st.sampled_from(forms))
                ncopies = len({k_.split('.')[0] for k_ in inputs if k_.startswith(form + ':')})
                perm = list(data.draw(st.permutations(list(range(ncopies)))))
                if perm == list(range(ncopies)):
                    perm = perm[1:] + perm[:1]
                case.update(form=form, perm=perm)
                r2 = solve_vals(sc, renumber(inputs, form, perm))
                ctx.case()
                if r2 is None:
                    ctx.violation(f'perm:unsolved:{form}', f'{year}: the return solves, but not after renumbering its {form} copies by {perm}', case)
                    continue
                compare_renumbered(ctx, year, base, r2, form, perm, case)
                copies = [tuple(sorted((kk.split('.', 1)[1], vv) for kk, vv in inputs.items() if kk.startswith(f'{form}:{c}.'))) for c in range(ncopies)]
                if len(set(copies)) > 1:
                    ctx.nt({'b': inputs, 'f': form, 'p': perm})
                ctx.count('pairs:perm')
                continue
            pats = {'wage': WAGES, 'deduct': DEDUCTIBLE, 'withhold': WITHHOLDING, 'ncwithhold': []}[kind]
            cands = sorted(k_ for k_ in inputs if matches(k_, pats))
            if preset is not None:
                cands = [preset]
            elif kind == 'withhold':
                # the withholding box of every payer statement in the file, also when the demand-driven build never
                # asked for it (a box that no line reads would otherwise never be a candidate)
                for form_, box_ in (('w-2', 'box_2'), ('1099-int', 'box_4'), ('1099-div', 'box_4'), ('1099-r', 'box_4'), ('1099-g', 'box_4')):
                    try:
                        n_ = int(inputs.get(f'1040.number_{form_}', '0').strip() or 0)
                    except ValueError:
                        n_ = 0
                    cands += [f'{form_}:{c_}.{box_}' for c_ in range(n_) if f'{form_}:{c_}.{box_}' not in inputs]
                cands = sorted(set(cands))
            if not cands:
                ctx.count(kind + ':no_candidate')
                continue
            key = data.draw(st.sampled_from(cands))
            delta = data.draw(st.sampled_from([0.01, 1.0, 37.5, 250.0, 1000.0, 4321.09, 10000.0, 60000.0, 100000.0]))
            if kind == 'ncwithhold':
                delta = float(data.draw(st.sampled_from([1, 37, 250, 1000, 4321])))     # the state form works in whole dollars
            if kind == 'wage' and data.draw(st.booleans()) and isinstance(base.values.get('1040.11'), (int, float)):
                # cliff hunting: statutory thresholds sit on round amounts of AGI. Put one return exactly on a round
                # amount and its partner a little above it, and compare those two (the second has more wages)
                agi = float(base.values['1040.11'])
                try:
                    old0 = float(inputs[key].strip() or 0)
                except ValueError:
                    continue
                lowest = agi - old0 + 1.0          # the statement keeps at least a dollar of wages
                m_ = data.draw(st.sampled_from([1000, 2500, 5000, 10000, 20000]))
                t_ = (int(agi // m_) + data.draw(st.integers(-4, 4))) * m_
                if data.draw(st.booleans()):
                    # or an amount that one of the forms taking part writes as a literal / threshold
                    from hx import mock
                    cands_t = sorted({c_ for f_ in base.solver.forms.values() for c_ in mock.form_thresholds(f_) if max(lowest, agi - 120000) < c_ <= agi + 80000})
                    if cands_t:
                        t_ = data.draw(st.sampled_from(cands_t))
                if t_ <= lowest:
                    ctx.count('wage_cliff:target_below_available_wages')
                    continue
                ctx.count('wage_cliff:target_below_base_agi' if t_ < agi else 'wage_cliff:target_above_base_agi')
                eps = data.draw(st.sampled_from([0.01, 1.0, 100.0, 250.0]))
                at = dict(inputs)
                at[key] = f'{old0 + (t_ - agi):.2f}'
                ra = solve_vals(sc, at)
                if ra is None:
                    ctx.count('pairs_dropped_second_unsolved:wage_cliff')
                    continue
                if abs(fnum(ra.values.get('1040.11')) - t_) < 0.006:
                    ctx.count('wage_cliff:first_return_exactly_on_round_agi')
                # from here on the pair is (return on the round amount, return eps above it)
                inputs_pair, bq_pair, delta = at, quantities(ra), eps
                case = dict(case, scenario=dict(case['scenario'], inputs=at), cliff=t_)
            else:
                inputs_pair, bq_pair = inputs, bq
            try:
                old = float(inputs_pair.get(key, '0').strip() or 0)
            except ValueError:
                continue
            inp2 = dict(inputs_pair)
            inp2[key] = f'{old + delta:.2f}'
            case.update(key=key, delta=delta)
            bqp = bq_pair
            r2 = solve_vals(sc, inp2, pol)
            ctx.case()
            if r2 is None:
                ctx.count(f'pairs_dropped_second_unsolved:{kind}')
                continue
            if len(r2.trace.prompts):
                # the changed return demanded inputs the first one never read: keep them in the replayable case
                ctx.count('pairs_second_needed_more_inputs')
                done_ = solve.config_to_dict(r2.store.config)
                done_[key] = inputs_pair.get(key, '0')
                case = dict(case, scenario=dict(case['scenario'], inputs=done_))
            q2 = quantities(r2)
            ctx.count('pairs:' + kind)
            kb = key.split('.')[0].split(':')[0] + '.' + key.split('.')[1]
            changed = False
            if kind == 'wage':
                if q2['tax24'] < bqp['tax24'] - 0.011:
                    ctx.violation(f'wage:tax-decreases', f'{year}: {key} +{delta} lowers total tax from {bqp["tax24"]} to {q2["tax24"]}', case)
                if 'nc19' in bqp and q2['nc19'] < bqp['nc19'] - 1.01:
                    ctx.violation(f'wage:nc-tax-decreases', f'{year}: {key} +{delta} lowers NC tax from {bqp["nc19"]} to {q2["nc19"]}', case)
                changed = q2['tax24'] != bqp['tax24']
            elif kind == 'deduct':
                if q2['tax24'] > bqp['tax24'] + 0.011:
                    ctx.violation(f'deduct:tax-increases:{kb}', f'{year}: {key} +{delta} raises total tax from {bqp["tax24"]} to {q2["tax24"]}', case)
                if 'nc19' in bqp and 'nc19' in q2 and q2['nc19'] > bqp['nc19'] + 1.01:
                    ctx.violation(f'deduct:nc-tax-increases:{kb}', f'{year}: {key} +{delta} raises N.C. tax from {bqp["nc19"]} to {q2["nc19"]}', case)
                changed = q2['tax24'] != bqp['tax24']
            elif kind == 'ncwithhold':
                if 'ncnet' in bqp and 'ncnet' in q2:
                    if abs((q2['ncnet'] - bqp['ncnet']) - delta) > 1.51:
                        ctx.violation(f'ncwithhold:not-dollar-for-dollar:{kb}', f'{year}: {key} +{delta} (withheld for N.C.) moves the N.C. refund-minus-due by {q2["ncnet"] - bqp["ncnet"]:.2f}', case)
                    ctx.count('pairs:ncwithhold_compared')
                changed = True
            else:
                if abs((q2['net'] - bqp['net']) - delta) > 0.011:
                    ctx.violation(f'withhold:not-dollar-for-dollar:{kb}', f'{year}: {key} +{delta} moves refund-minus-owed by {q2["net"] - bqp["net"]:.2f}', case)
                changed = True
            if key in read and changed:
                ctx.nt({'b': inputs, 'k': key, 'd': delta})
            elif key not in read:
                ctx.count(kind + ':input_not_read')
        if len(ctx.samples) < 3:
            ctx.sample({'year': year, 'forms': sc['forms'], 'base': bq, 'copies': {f: len({k_.split('.')[0] for k_ in inputs if k_.startswith(f + ':')}) for f in NUMBERED}})
    hyp.run_data(body, n, seed)


def cliff_pair(ctx, sc, key, old0, agi, t_, eps, year, status):
    """two returns that differ by `eps` of wages, the first with AGI exactly on t_: total tax must not fall"""
    at = dict(sc['inputs'])
    at[key] = f'{old0 + (t_ - agi):.2f}'
    ra = solve_vals(sc, at)
    if ra is None:
        ctx.count('cliff:first_unsolved')
        return False
    b = dict(at)
    b[key] = f'{old0 + (t_ - agi) + eps:.2f}'
    rb = solve_vals(sc, b)
    ctx.case()
    if rb is None:
        ctx.count('cliff:second_unsolved')
        return True
    qa, qb = quantities(ra), quantities(rb)
    ctx.count('cliff:pairs')
    case = {'scenario': {'year': sc['year'], 'forms': sc['forms'], 'inputs': at}, 'kind': 'wage', 'key': key, 'delta': eps, 'cliff': t_}
    if qb['tax24'] < qa['tax24'] - 0.011:
        ctx.violation('wage:tax-decreases', f'{year} {status}: AGI {t_} -> {t_ + eps} ({key} +{eps}) lowers total tax from {qa["tax24"]} to {qb["tax24"]}', case)
    if 'nc19' in qa and 'nc19' in qb and qb['nc19'] < qa['nc19'] - 1.01:
        ctx.violation('wage:nc-tax-decreases', f'{year} {status}: AGI {t_} -> {t_ + eps} ({key} +{eps}) lowers NC tax from {qa["nc19"]} to {qb["nc19"]}', case)
    if abs(fnum(ra.values.get('1040.11')) - t_) < 0.006 and (qa['tax24'] != qb['tax24'] or qa.get('nc19') != qb.get('nc19')):
        ctx.nt(f'cliff|{year}|{status}|{sc["forms"]}|{t_}|{eps}')
    return True


def shard_cliffs(ctx, k, payload):
    """threshold sweep: for a household, every amount that a participating form writes as a literal or lists as a
    threshold (and every multiple of $10,000) within reach of its wages is taken as an AGI to stand on"""
    from hx import mock
    n, max_t, seed = payload

    def body(data):
        forms = data.draw(st.sampled_from([['1040'], ['1040', 'nc_d-400'], ['1040', 'nc_d-400']]))
        p = data.draw(scenario.personas(forms=forms))
        p['n_w2'] = 1            # one W-2 holds all the wages, so the sweep can move the AGI over their whole range
        if data.draw(st.integers(0, 5)) == 0:
            p.update(big_dividends=True, n_div=1, n_int=0, wage_level='low', n_w2=1, deps=[], s199a=False, itemize=False)
        elif data.draw(st.booleans()):
            p.update(itemize=True, n_1098=max(1, p['n_1098']))
        if data.draw(st.booleans()) and not any(x == 'ctc' for x in p['deps']):
            p['deps'] = ['ctc'] * data.draw(st.sampled_from([1, 1, 2]))
            p = scenario.constrain(p)
        sc, base = scenario.build(p, data.draw)
        if base.exc is not None or not base.verdict or not isinstance(base.values.get('1040.11'), (int, float)):
            ctx.count('cliff:base_not_solved')
            return
        ctx.count('cliff:bases')
        inputs = sc['inputs']
        wkeys = sorted((k_ for k_ in inputs if matches(k_, WAGES)), key=lambda k_: -float(inputs[k_].strip() or 0))
        if not wkeys:
            return
        key = wkeys[0]
        old0 = float(inputs[key].strip() or 0)
        agi = float(base.values['1040.11'])
        lowest = agi - old0 + 1.0
        ts = {c_ for f_ in base.solver.forms.values() for c_ in mock.form_thresholds(f_)} | {float(x) for x in range(10000, 600001, 10000)}
        ts = sorted(t for t in ts if max(lowest, agi - 150000) < t <= agi + 100000)
        ctx.count('cliff:candidate_thresholds', len(ts))
        if len(ts) > max_t:
            ctx.count('cliff:bases_with_sampled_thresholds')
            ts = sorted(data.draw(st.lists(st.sampled_from(ts), min_size=max_t, max_size=max_t, unique=True)))
        # deduction cliffs: a deductible amount standing exactly on an amount a participating form writes as a literal,
        # and a little above it - the larger deduction must not raise the tax
        pol = scenario.Policy(p, data.draw)
        dkeys = sorted(k_ for k_ in inputs if matches(k_, DEDUCTIBLE))
        own = {}
        for f_ in base.solver.forms.values():
            own[f_.name().split(':')[0]] = [c_ for c_ in mock.form_thresholds(f_) if 50 <= c_ <= 25000 and c_ != sc['year']]
        pairs_ = []
        for dk in dkeys:
            fb_ = dk.split('.')[0].split(':')[0]
            fb_ = {'1098': '1040_sa', '1099-int': '1040_s1'}.get(fb_, fb_)
            pairs_ += [(dk, dt) for dt in own.get(fb_, [])]
        if len(pairs_) > 40:
            pairs_ = data.draw(st.lists(st.sampled_from(pairs_), min_size=40, max_size=40, unique=True))
        for dk, dt in pairs_:
            eps_ = data.draw(st.sampled_from([0.01, 1.0, 100.0]))
            rb = solve_vals(sc, dict(inputs, **{dk: f'{dt + eps_:.2f}'}), pol)
            # the first return of the pair gets the answers the second one needed as well (same supplied values but dk)
            full_ = dict(solve.config_to_dict(rb.store.config), **{dk: f'{dt:.2f}'}) if rb is not None else dict(inputs, **{dk: f'{dt:.2f}'})
            ra = solve_vals(sc, full_, pol)
            ctx.case()
            if ra is None:
                ctx.count('deduct_cliff:first_unsolved')
                continue
            if rb is None:
                ctx.count('deduct_cliff:second_unsolved')
                continue
            ctx.count('deduct_cliff:pairs')
            qa, qb = quantities(ra), quantities(rb)
            kb_ = dk.split('.')[0].split(':')[0] + '.' + dk.split('.')[1]
            if qb['tax24'] > qa['tax24'] + 0.011:
                ctx.violation(f'deduct:tax-increases:{kb_}', f'{sc["year"]}: {dk} {dt} -> {dt + eps_} raises total tax from {qa["tax24"]} to {qb["tax24"]}',
                              {'scenario': {'year': sc['year'], 'forms': sc['forms'], 'inputs': dict(solve.config_to_dict(ra.store.config), **{dk: f'{dt:.2f}'})}, 'kind': 'deduct', 'key': dk, 'delta': eps_})
            if 'nc19' in qa and 'nc19' in qb and qb['nc19'] > qa['nc19'] + 1.01:
                ctx.violation(f'deduct:nc-tax-increases:{kb_}', f'{sc["year"]}: {dk} {dt} -> {dt + eps_} raises N.C. tax from {qa["nc19"]} to {qb["nc19"]}',
                              {'scenario': {'year': sc['year'], 'forms': sc['forms'], 'inputs': dict(solve.config_to_dict(ra.store.config), **{dk: f'{dt:.2f}'})}, 'kind': 'deduct', 'key': dk, 'delta': eps_})
            if qa['tax24'] != qb['tax24']:
                ctx.nt(f'dcliff|{sc["year"]}|{dk}|{dt}|{eps_}')
        # from the highest down; below some income the household enters a range HabuTax does not compute
        # (earned income credit), so after four consecutive unsolved returns the descent stops
        streak = 0
        for t_ in reversed(ts):
            ok = cliff_pair(ctx, sc, key, old0, agi, t_, data.draw(st.sampled_from([0.01, 1.0, 100.0, 250.0])), sc['year'], p['status'])
            streak = 0 if ok else streak + 1
            if streak >= 4:
                ctx.count('cliff:descent_stopped_after_4_unsolved')
                break
    hyp.run_data(body, n, seed)


def run(ctx):
    quick = ctx.tier == 'quick'
    nc_, mt = (256, 120) if quick else (2400, 160)
    hyp.pmap(ctx, shard_cliffs, [(max(1, nc_ // 16), mt, ctx.seed * 1000 + 700 + k) for k in range(16)])
    n, nvar = (320, 6) if quick else (8000, 10)
    shards = 16
    hyp.pmap(ctx, shard, [(max(1, n // shards), nvar, ctx.seed * 1000 + k) for k in range(shards)])


def replay(ctx, case):
    sc = case['scenario']
    base = solve_vals(sc, sc['inputs'])
    if base is None:
        return
    year = sc['year']
    if case['kind'] == 'perm':
        r2 = solve_vals(sc, renumber(sc['inputs'], case['form'], case['perm']))
        if r2 is None:
            ctx.violation(f'perm:unsolved:{case["form"]}', 'not solved after renumbering', case)
        else:
            compare_renumbered(ctx, year, base, r2, case['form'], case['perm'], case)
        return
    key, delta = case['key'], case['delta']
    inp2 = dict(sc['inputs'])
    inp2[key] = f'{float(sc["inputs"].get(key, "0").strip() or 0) + delta:.2f}'
    r2 = solve_vals(sc, inp2)
    if r2 is None:
        return
    bq, q2 = quantities(base), quantities(r2)
    kb = key.split('.')[0].split(':')[0] + '.' + key.split('.')[1]
    if case['kind'] == 'wage' and q2['tax24'] < bq['tax24'] - 0.011:
        ctx.violation('wage:tax-decreases', f'{key} +{delta}: {bq["tax24"]} -> {q2["tax24"]}', case)
    if case['kind'] == 'wage' and 'nc19' in bq and q2['nc19'] < bq['nc19'] - 1.01:
        ctx.violation('wage:nc-tax-decreases', f'{key} +{delta}: NC tax {bq["nc19"]} -> {q2["nc19"]}', case)
    if case['kind'] == 'deduct' and q2['tax24'] > bq['tax24'] + 0.011:
        ctx.violation(f'deduct:tax-increases:{kb}', f'{key} +{delta}: {bq["tax24"]} -> {q2["tax24"]}', case)
    if case['kind'] == 'deduct' and 'nc19' in bq and 'nc19' in q2 and q2['nc19'] > bq['nc19'] + 1.01:
        ctx.violation(f'deduct:nc-tax-increases:{kb}', f'{key} +{delta}: N.C. tax {bq["nc19"]} -> {q2["nc19"]}', case)
    if case['kind'] == 'ncwithhold' and 'ncnet' in bq and 'ncnet' in q2 and abs((q2['ncnet'] - bq['ncnet']) - delta) > 1.51:
        ctx.violation(f'ncwithhold:not-dollar-for-dollar:{kb}', f'{key} +{delta}: moves by {q2["ncnet"] - bq["ncnet"]:.2f}', case)
    if case['kind'] == 'withhold' and abs((q2['net'] - bq['net']) - delta) > 0.011:
        ctx.violation(f'withhold:not-dollar-for-dollar:{kb}', f'{key} +{delta}: moves by {q2["net"] - bq["net"]:.2f}', case)
