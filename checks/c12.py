"""C12 — stored line values have the declared type, rounding and blank convention.

(a) every field class x decimal places x Python values of every kind a
    definition might return, against a reference typing/rounding function;
(b) two-line programs through the real solver: a dependant observes exactly
    the rounded value of a money line;
(c) every value stored by real solves: declared type, money lines are fixed
    points of round(., places), InputForm mirrors inputs with matching types."""
import enum as pyenum
import math

from hypothesis import strategies as st

import habutax.enum as henum
import habutax.fields as hf
import habutax.form as hform
import habutax.inputs as hi

from hx import catalog, hyp, realcamp, scenario, solve

PROPERTY = 'C12'
LEVEL = 'exploration'
RULE = ('returned Python values of every kind (bool/int/float incl. +-0.0, nan, inf, huge, half-way cases, str incl. blank, None, '
        'enum members of the right and of another enumeration, subclasses of int/float/str, containers) x field class x places in '
        '{0,1,2,5} through Field.value() and through two-line programs in the real solver; plus all values stored by real solves. '
        'Oracle: reference function (accepted iff type(v) is the declared type; None/blank -> empty value; floats -> round(v, places); '
        'else TypeError naming the line). Non-trivial = a value that needs rounding, is blank/None, or is of a wrong-but-close type; '
        'distinct = (field class, places, repr(value))')
ASSUMPTIONS = ['blank means None or a str (or str subclass) that is empty after strip(), for every field type']

OTHER = pyenum.Enum('Other', {'Single': 'x', 'a': 'y'})


class MyInt(int):
    pass


class MyFloat(float):
    pass


class MyStr(str):
    pass


class DummyForm(object):
    def name(self):
        return 'dummy:0'


def value_strategy():
    floats = st.one_of(
        st.sampled_from([0.0, -0.0, 1.005, 2.675, 0.125, 0.135, 1e-9, -1e-9, 0.004999, 0.005, 0.015, 2.5, 3.5, 1e15 + 0.3,
                         1e308, -1e308, float('nan'), float('inf'), float('-inf'), 123456.789, 0.1 + 0.2, 99999.995, 1 / 3]),
        st.floats(allow_nan=True, allow_infinity=True),
        st.integers(-10 ** 9, 10 ** 9).map(lambda c: c / 1000.0))
    ints = st.one_of(st.sampled_from([0, 1, -1, 2 ** 70, -2 ** 70]), st.integers(-1000, 1000))
    strs = st.one_of(st.sampled_from(['', ' ', '\t\n', '    ', 'x', ' x ', '0', '1.5', 'True', 'Single']), st.text(max_size=5))
    others = st.sampled_from([None, True, False, MyInt(3), MyFloat(1.005), MyStr(''), MyStr('  '), MyStr('z'), (1, 2), [1.0], {'a': 1},
                              b'x', 1 + 2j, henum.filing_status.Single, henum.filing_status.HeadOfHousehold, henum.us_states.NC,
                              OTHER.Single, henum.filing_status_2021.Single, object])
    return st.one_of(floats, ints, strs, others)


FIELD_KINDS = ['str', 'bool', 'int', 'float0', 'float1', 'float2', 'float5', 'enum']


def make_field(kind, fn):
    if kind == 'str':
        f = hf.StringField('ln', fn)
    elif kind == 'bool':
        f = hf.BooleanField('ln', fn)
    elif kind == 'int':
        f = hf.IntegerField('ln', fn)
    elif kind.startswith('float'):
        f = hf.FloatField('ln', fn, places=int(kind[5:]))
    else:
        f = hf.EnumField('ln', henum.filing_status, fn)
    f.__form_init__(DummyForm())
    return f


def reference(kind, v):
    """('ok', stored) | ('TypeError', None)"""
    blank = v is None or (isinstance(v, str) and v.strip() == '')
    if kind == 'str':
        if blank:
            return 'ok', ''
        return ('ok', v) if type(v) is str else ('TypeError', None)
    if kind == 'bool':
        if blank:
            return 'ok', False
        return ('ok', v) if type(v) is bool else ('TypeError', None)
    if kind == 'int':
        if blank:
            return 'ok', 0
        return ('ok', v) if type(v) is int else ('TypeError', None)
    if kind.startswith('float'):
        places = int(kind[5:])
        if blank:
            return 'ok', 0.0
        if type(v) is not float:
            return 'TypeError', None
        return 'ok', round(v, places)
    if blank:
        return 'ok', None
    return ('ok', v) if type(v) is henum.filing_status else ('TypeError', None)


def same(a, b):
    if type(a) is not type(b):
        return False
    if isinstance(a, float):
        if a != a or b != b:
            return a != a and b != b
        return a == b and math.copysign(1, a) == math.copysign(1, b)
    return a == b


def nontrivial(kind, v):
    if v is None or (isinstance(v, str) and v.strip() == ''):
        return True
    if kind.startswith('float') and type(v) is float and v == v and abs(v) != float('inf'):
        return round(v, int(kind[5:])) != v
    if kind.startswith('float'):
        return isinstance(v, (int, bool, float))
    if kind == 'int':
        return isinstance(v, (bool, float, int)) and type(v) is not int
    if kind == 'bool':
        return isinstance(v, int) and type(v) is not bool
    if kind == 'str':
        return isinstance(v, str) and type(v) is not str
    return isinstance(v, pyenum.Enum) and type(v) is not henum.filing_status


def check_unit(ctx, kind, v):
    case = {'field': kind, 'value': repr(v), 'route': 'unit'}
    f = make_field(kind, lambda s, i, vv: v)
    want, stored = reference(kind, v)
    try:
        got = f.value({}, {})
    except TypeError as e:
        if want != 'TypeError':
            ctx.violation(f'{kind}:rejects-declared-type', f'{kind} line returning {v!r}: TypeError {e} but reference stores {stored!r}', case)
        elif f.name() not in str(e):
            ctx.violation(f'{kind}:error-does-not-name-line', f'{kind} line returning {v!r}: TypeError message {str(e)!r} does not contain {f.name()!r}', case)
        return
    except Exception as e:
        ctx.violation(f'{kind}:other-exception:{type(e).__name__}', f'{kind} line returning {v!r} raises {e!r} (expected {"TypeError naming the line" if want == "TypeError" else repr(stored)})', case)
        return
    if want == 'TypeError':
        ctx.violation(f'{kind}:stores-wrong-type', f'{kind} line returning {v!r} ({type(v).__name__}) was stored/coerced as {got!r} instead of being rejected', case)
    elif not same(got, stored):
        ctx.violation(f'{kind}:wrong-stored-value', f'{kind} line returning {v!r} stored {got!r}, reference {stored!r}', case)


# ---------------------------------------------------------------------------
class TwoLine(hform.Form):
    form_name = 'two'
    tax_year = 2099
    description = 'two'
    long_description = 'money line + dependant'
    jurisdiction = hform.Jurisdiction.US
    payload = None
    seen = None

    def __init__(self, **kwargs):
        v, places, kind = type(self).payload
        seen = type(self).seen

        def dep(s, i, vals):
            x = vals['src']
            seen.append(x)
            return None
        src = make_src(kind, places, v)
        super().__init__(__class__, [], [hf.StringField('dep', dep), src], [], **kwargs)

    def needs_filing(self, values):
        return False


def make_src(kind, places, v):
    fn = lambda s, i, vals: v
    if kind == 'float':
        return hf.FloatField('src', fn, places=places)
    if kind == 'int':
        return hf.IntegerField('src', fn)
    if kind == 'bool':
        return hf.BooleanField('src', fn)
    return hf.StringField('src', fn)


def check_solver(ctx, kind, places, v):
    """through the real solver: the dependant sees exactly the reference value"""
    import configparser
    seen = []
    F = type('Two', (TwoLine,), {'payload': (v, places, kind), 'seen': seen})
    r = solve.run([F], ['two'], configparser.ConfigParser())
    fk = f'float{places}' if kind == 'float' else kind
    want, stored = reference(fk, v)
    case = {'field': fk, 'value': repr(v), 'route': 'solver'}
    if want == 'TypeError':
        if not isinstance(r.exc, TypeError) or 'two.src' not in str(r.exc):
            ctx.violation(f'{fk}:solver-no-typeerror', f'line returning {v!r}: expected TypeError naming two.src, got exc={r.exc!r} values={r.values}', case)
        elif seen:
            ctx.violation(f'{fk}:solver-dependant-saw-rejected', f'dependant observed {seen!r} of a rejected value', case)
        return
    if r.exc is not None:
        ctx.violation(f'{fk}:solver-raises', f'line returning {v!r}: solve raised {r.exc!r}', case)
        return
    if not same(r.values.get('two.src'), stored):
        ctx.violation(f'{fk}:solver-stored', f'line returning {v!r}: stored {r.values.get("two.src")!r}, reference {stored!r}', case)
    if not seen or not same(seen[-1], stored):
        ctx.violation(f'{fk}:solver-dependant-saw-unrounded', f'line returning {v!r}: dependant observed {seen!r}, reference {stored!r}', case)


def shard_values(ctx, k, payload):
    n, seed = payload

    def body(args):
        kind, v, route, places = args
        ctx.case()
        if route == 'unit':
            check_unit(ctx, kind, v)
            key = f'{kind}|{v!r}'
            nt = nontrivial(kind, v)
        else:
            sk = kind[:5] if kind.startswith('float') else kind
            if sk == 'enum':
                sk = 'str'
            check_solver(ctx, sk, places, v)
            key = f'solver|{sk}{places}|{v!r}'
            nt = nontrivial(f'float{places}' if sk == 'float' else sk, v)
        ctx.count('route:' + route)
        ctx.count('field:' + kind)
        if nt:
            ctx.nt(key)
        if len(ctx.samples) < 6 and nt and type(v) in (float, bool, MyInt):
            ctx.sample({'field': kind, 'returned': repr(v), 'route': route, 'reference': repr(reference(kind, v))})
    strat = st.tuples(st.sampled_from(FIELD_KINDS), value_strategy(), st.sampled_from(['unit', 'unit', 'unit', 'solver']),
                      st.sampled_from([0, 1, 2, 5]))
    hyp.run_given(strat, body, n, seed)


# ---------------------------------------------------------------------------
def declared(field):
    k = catalog.line_kind(field)
    return {'str': str, 'bool': bool, 'int': int, 'float': float}.get(k)


def check_stored(ctx, r, case):
    fm = r.solver._field_map
    for name, val in r.values.items():
        f = fm[name]
        base = name.split('.')[0].split(':')[0] + '.' + name.split('.')[1]
        ctx.count('stored_values_checked')
        if isinstance(f, hf.EnumField):
            if not (val is None or type(val) is f.enum()):
                ctx.violation(f'real:type:{base}', f'{name} holds {val!r}, not a member of its enumeration or None', case)
            continue
        t = declared(f)
        if type(val) is not t:
            ctx.violation(f'real:type:{base}', f'{name} declared {t.__name__} holds {val!r} ({type(val).__name__})', case)
        elif t is float and val == val and abs(val) != float('inf') and round(val, f._places) != val:
            ctx.violation(f'real:unrounded:{base}', f'{name} holds {val!r}, not rounded to {f._places} places', case)
        elif t is float and val != round(val, f._places):
            ctx.nt(name + repr(val))


def check_inputform_mirror(ctx):
    """exhaustive: every InputForm of every year mirrors each input with a line of the matching type"""
    want = {'str': 'str', 'ssn': 'str', 'bool': 'bool', 'int': 'int', 'float': 'float', 'enum': 'enum'}
    for year in catalog.YEARS:
        cat = catalog.get(year)
        for fname, f in cat.forms.items():
            if not catalog.is_input_form(type(f)):
                continue
            lines = {l.base_name(): l for l in f.fields()}
            for i in f.inputs():
                ctx.case()
                l = lines.get(i.base_name())
                ik = catalog.input_kind(i)
                if l is None or catalog.line_kind(l) != want.get(ik):
                    ctx.violation(f'mirror:{year}:{fname.split(":")[0]}.{i.base_name()}',
                                  f'{year} {fname}: input {i.base_name()} ({ik}) is mirrored by {catalog.line_kind(l) if l else None}', {'year': year, 'form': fname, 'input': i.base_name(), 'route': 'mirror'})
                elif ik == 'enum' and l.enum() is not i.enum:
                    ctx.violation(f'mirror-enum:{year}:{fname.split(":")[0]}.{i.base_name()}', f'{year} {fname}.{i.base_name()} mirrors a different enumeration', {'year': year, 'form': fname, 'input': i.base_name(), 'route': 'mirror'})
                ctx.nt(f'mirror|{year}|{fname}|{i.base_name()}')


def shard_real(ctx, k, payload):
    n, seed = payload

    def body(data):
        p = data.draw(scenario.personas())
        sc, _ = scenario.build(p, data.draw)
        v = realcamp.make_variant(data.draw, sc, ['full', 'full', 'delete', 'gates'])
        r = realcamp.run_variant(v)
        ctx.case()
        if r.exc is None:
            check_stored(ctx, r, {'variant': v, 'route': 'real'})
    hyp.run_data(body, n, seed)


def run(ctx):
    quick = ctx.tier == 'quick'
    n = 10000 if quick else 500000
    shards = 4 if quick else 16
    hyp.pmap(ctx, shard_values, [(n // shards, ctx.seed * 1000 + k) for k in range(shards)])
    check_inputform_mirror(ctx)
    nr = 120 if quick else 4000
    hyp.pmap(ctx, shard_real, [(nr // 4, ctx.seed * 1000 + 700 + k) for k in range(4)])


def replay(ctx, case):
    route = case.get('route')
    if route == 'real':
        r = realcamp.run_variant(case['variant'])
        if r.exc is None:
            check_stored(ctx, r, case)
        return
    if route == 'mirror':
        check_inputform_mirror(ctx)
        return
    # values are stored as repr(); rebuild through the generator's sample space
    v = eval(case['value'], {'nan': float('nan'), 'inf': float('inf'), 'MyInt': MyInt, 'MyFloat': MyFloat, 'MyStr': MyStr,
                             '__builtins__': {'object': object, 'complex': complex}})
    if route == 'unit':
        check_unit(ctx, case['field'], v)
    else:
        k = case['field']
        check_solver(ctx, 'float' if k.startswith('float') else k, int(k[5:]) if k.startswith('float') else 2, v)
