"""C07 — income tax on a taxable amount follows the year's statutory schedule.

Domain: (year, status, income in cents). quick: every reference table row
(low end, midpoint, high end - 0.01), every bracket boundary +-0.01 and +-1,
plus Hypothesis-drawn incomes (log-uniform and boundary-biased) up to 1e12.
thorough: additionally every whole dollar in [0, 100000) (exhaustive).
Oracle: hx/taxref.py (exact rationals from the Revenue-Procedure brackets).
"""
import importlib
from fractions import Fraction as F

from hypothesis import strategies as st

from hx import hyp, taxref
from hx.run import load_known

PROPERTY = 'C07'
LEVEL = 'exploration'
RULE = ('cases are (year, status, taxable income in cents) evaluated through the real '
        'figure_tax(); enumerated over every IRS table row (low/mid/high-0.01), every bracket '
        'boundary and neighbours, every whole dollar below 100000 in the thorough tier, plus '
        'Hypothesis draws (log-uniform, boundary-biased) up to 1e12; every distinct point is '
        'non-trivial (each has its own expected value from the independent reference); '
        'distinct = distinct (year,status,cents) triples')
ASSUMPTIONS = ['data/brackets.json transcribes Rev. Proc. 2020-45/2021-45/2022-38 correctly',
               'IRS table rows: [0,5),[5,15),[15,25), $25 rows to 3000, $50 rows to 100000; tax at row midpoint rounded half-up',
               'supported maximum is 1e12 (upper end of the last worksheet row)']

PAIRS = [(y, s) for y in taxref.YEARS for s in taxref.STATUSES]


def member(year, status):
    import habutax.enum as henum
    if year == 2021:
        e = henum.filing_status_2021
        return e['QualifyingWidowWidower'] if status == 'QSS' else e[status]
    e = henum.filing_status
    return e['QualifyingSurvivingSpouse'] if status == 'QSS' else e[status]


_FT = {}


def figure(year):
    if year not in _FT:
        _FT[year] = importlib.import_module(f'habutax.forms.ty{year}.f1040_figure_tax').figure_tax
    return _FT[year]


def known_ranges():
    out = []
    for k in load_known():
        if k['property'] == PROPERTY and 'range' in k:
            out.append(k)
    return out


def call(year, status, cents):
    """returns ('ok', value) | ('undefined', msg) | ('error', msg)"""
    x = cents / 100.0
    try:
        v = figure(year)(x, member(year, status))
    except AssertionError as e:
        return 'undefined', 'AssertionError ' + str(e)[:80]
    except Exception as e:  # any other failure to produce a tax is also "not defined"
        return 'error', type(e).__name__ + ' ' + str(e)[:80]
    return 'ok', v


def bracket_index(year, status, cents):
    ups = taxref.uppers(year, status)
    x = F(cents, 100)
    k = 0
    while k < len(ups) and x > ups[k]:
        k += 1
    return k


def check_point(ctx, year, status, cents, cache=None):
    """evaluate one point against the reference; returns the value or None"""
    ctx.case()
    kind, v = call(year, status, cents)
    case = {'year': year, 'status': status, 'cents': cents}
    if kind != 'ok':
        if cents < taxref.TABLE_LIMIT * 100:
            lo, hi = taxref.row_of(F(cents, 100))
            ctx.note('undef_rows', f'{year}|{lo}|{hi}|{status}|{cents}')
        else:
            ctx.violation(f'undefined:{year}:{status}:bracket{bracket_index(year, status, cents)}',
                          f'figure_tax({cents/100}, {status}) for {year} is not defined: {v}', case)
        return None
    if type(v) is not float:
        ctx.violation(f'type:{year}', f'figure_tax returned {type(v).__name__}, not float', case)
        return None
    exp, tol = taxref.reference(year, status, F(cents, 100))
    if abs(F(v) - exp) > tol:
        where = 'table' if cents < taxref.TABLE_LIMIT * 100 else f'bracket{bracket_index(year, status, cents)}'
        ctx.violation(f'value:{year}:{taxref.schedule_status(status)}:{where}',
                      f'{year} {status}: figure_tax({cents/100}) = {v}, statutory schedule gives {float(exp)}',
                      dict(case, got=v, expected=float(exp)))
    return v


def check_pair(ctx, year, status, c1, v1, c2, v2):
    """consequences: non-decreasing, marginal bound (c1 < c2)"""
    if v1 is None or v2 is None:
        return
    case = {'year': year, 'status': status, 'cents': c1, 'cents2': c2}
    if v2 < v1 - 1e-9:
        ctx.violation(f'monotone:{year}:{taxref.schedule_status(status)}',
                      f'{year} {status}: tax decreases from {v1} at {c1/100} to {v2} at {c2/100}', case)
    d = (c2 - c1) / 100.0
    if v2 - v1 > 0.37 * d + 0.37 * 50 + 1.0 + 1e-6:
        ctx.violation(f'marginal:{year}:{taxref.schedule_status(status)}',
                      f'{year} {status}: tax rises by {v2 - v1} over {d} dollars ({c1/100} -> {c2/100})', case)


def enum_points(year, status, tier):
    pts = set()
    for lo, hi in taxref.all_rows():
        pts.update((lo * 100, (lo + hi) * 50, hi * 100 - 1))
    for b in taxref.boundaries(year, status):
        for d in (-100, -1, 0, 1, 100):
            pts.add(b * 100 + d)
    pts.update((0, 1, taxref.SUPPORTED_MAX * 100, taxref.SUPPORTED_MAX * 100 - 1))
    if tier == 'thorough':
        pts.update(range(0, taxref.TABLE_LIMIT * 100, 100))
    return sorted(pts)


def shard_enum(ctx, k, payload):
    year, status, tier = payload
    prev = None
    n = 0
    for c in enum_points(year, status, tier):
        v = check_point(ctx, year, status, c)
        n += 1
        if prev is not None:
            check_pair(ctx, year, status, prev[0], prev[1], c, v)
        if v is not None:
            prev = (c, v)
    ctx.nontrivial_extra += n
    ctx.count(f'enumerated:{year}', n)
    if status == 'QSS':
        pass
    ctx.sample({'year': year, 'status': status, 'income': 54321.0,
                'figure_tax': call(year, status, 5432100)[1],
                'reference': float(taxref.reference(year, status, F(54321))[0])}) if status == 'Single' else None


def shard_qss(ctx, k, payload):
    """QSS == MFJ on every enumerated point"""
    year, tier = payload
    for c in enum_points(year, 'MarriedFilingJointly', tier)[::(1 if tier == 'thorough' else 3)]:
        a = call(year, 'MarriedFilingJointly', c)
        b = call(year, 'QSS', c)
        ctx.case(2)
        if a != b:
            ctx.violation(f'qss:{year}', f'{year}: QSS {b} differs from MFJ {a} at {c/100}',
                          {'year': year, 'status': 'QSS', 'cents': c, 'pair': 'MFJ'})
    ctx.count('qss_points', 1)


def income_strategy():
    logu = st.builds(lambda e, m: min(int((10 ** e) * m), taxref.SUPPORTED_MAX * 100),
                     st.floats(0, 14), st.floats(1, 10))
    below = st.integers(0, taxref.TABLE_LIMIT * 100 - 1)
    mid = st.integers(taxref.TABLE_LIMIT * 100, 10 ** 8)
    return st.one_of(logu, below, mid)


def shard_random(ctx, k, payload):
    n, seed = payload
    seen = set()

    def body(args):
        (year, status), base, delta = args
        if base is None:
            cents = delta[0]
        else:
            b = taxref.boundaries(year, status)
            cents = max(0, b[base % len(b)] * 100 + delta[1])
        v = check_point(ctx, year, status, cents)
        key = (year, status, cents)
        if key not in seen:
            seen.add(key)
            ctx.nt(f'{year}{status}{cents}')
        ctx.count('random:' + ('table' if cents < 10 ** 7 else 'formula'))
        # a second amount inside the same whole dollar (results must not depend on what was asked before)
        c3 = (cents // 100) * 100 + (delta[2] % 100)
        if c3 != cents and c3 <= taxref.SUPPORTED_MAX * 100:
            v3 = check_point(ctx, year, status, c3)
            ctx.count('random:same_dollar_pair')
            if c3 > cents:
                check_pair(ctx, year, status, cents, v, c3, v3)
            else:
                check_pair(ctx, year, status, c3, v3, cents, v)
        # pair with a nearby larger income
        c2 = min(cents + delta[2], taxref.SUPPORTED_MAX * 100)
        if c2 > cents:
            v2 = check_point(ctx, year, status, c2)
            check_pair(ctx, year, status, cents, v, c2, v2)
        if len(ctx.samples) < 4:
            ctx.sample({'year': year, 'status': status, 'income': cents / 100, 'figure_tax': v,
                        'reference': float(taxref.reference(year, status, F(cents, 100))[0])})

    strat = st.tuples(st.sampled_from(PAIRS),
                      st.one_of(st.none(), st.integers(0, 6)),
                      st.tuples(income_strategy(), st.integers(-300, 300),
                                st.one_of(st.integers(1, 10000), st.integers(1, 10 ** 9))))
    hyp.run_given(strat, body, n, seed)


def aggregate_undefined(ctx):
    """turn the per-row notes into one bucket per (year, contiguous range)"""
    rows = {}
    for item in ctx.lists.pop('undef_rows', set()):
        year, lo, hi, status, cents = item.split('|')
        rows.setdefault(int(year), {}).setdefault((int(lo), int(hi)), (status, int(cents)))
    known = known_ranges()
    for year, rs in rows.items():
        spans = []
        for (lo, hi) in sorted(rs):
            if spans and spans[-1][1] == lo:
                spans[-1][1] = hi
                spans[-1][3] += 1
            else:
                spans.append([lo, hi, rs[(lo, hi)], 1])
        for lo, hi, (status, cents), n in spans:
            bucket = f'undefined:{year}:{lo}-{hi}'
            # a span inside a listed known range is that known finding
            for k in known:
                r = k['range']
                if r['year'] == year and r['lo'] <= lo and hi <= r['hi']:
                    bucket = k['bucket']
            ctx.violation(bucket, f'{year}: figure_tax is undefined (no table row) for taxable income in [{lo}, {hi}) ({n} reference rows hit)',
                          {'year': year, 'status': status, 'cents': cents})


def shard_lines(ctx, k, payload):
    """the lines that consume figure_tax: 1040 line 16 and worksheet lines 22/24
    must equal the reference on their operand"""
    from checks import c08
    from hx import scenario
    n, seed = payload
    specs = [('1040.16', 'v:1040.15', {'i:1040.uncommon_tax': False, 'i:1040.need_8615': False, 'i:1040.schedule_d_required': False,
                                       'v:1040.3a': 0.0, 'v:1040.7': 0.0}),
             ('1040_qualdiv_capgain_tax_wkst.22', 'v:1040_qualdiv_capgain_tax_wkst.5', {}),
             ('1040_qualdiv_capgain_tax_wkst.24', 'v:1040_qualdiv_capgain_tax_wkst.1', {})]

    def body(args):
        (year, status), cents, which = args
        check_line(ctx, year, status, cents, which)
    strat = st.tuples(st.sampled_from(PAIRS), income_strategy(), st.integers(0, 2))
    hyp.run_given(strat, body, n, seed)


LINE_SPECS = [('1040.16', 'v:1040.15', {'i:1040.uncommon_tax': False, 'i:1040.need_8615': False, 'i:1040.schedule_d_required': False,
                                        'v:1040.3a': 0.0, 'v:1040.7': 0.0}),
              ('1040_qualdiv_capgain_tax_wkst.22', 'v:1040_qualdiv_capgain_tax_wkst.5', {}),
              ('1040_qualdiv_capgain_tax_wkst.24', 'v:1040_qualdiv_capgain_tax_wkst.1', {})]


def check_line(ctx, year, status, cents, which):
    from checks import c08
    from hx import scenario
    if True:
        line, drv, reads = LINE_SPECS[which]
        if year == 2021 and 4800000 <= cents < 6600000:
            return   # the known table hole: covered by the figure_tax part
        r = dict(reads)
        r[drv] = cents / 100.0
        r['i:1040.filing_status'] = {'enum': scenario.status_name(year, status)}
        kind, val = c08.evaluate(year, line, r, None)
        ctx.case()
        ctx.count('line:' + line)
        exp, tol = taxref.reference(year, status, F(cents, 100))
        if kind != 'value' or abs(F(val) - exp) > max(tol, F(5, 1000)) + F(1, 200):
            ctx.violation(f'line:{year}:{line}', f'{year} {status}: {line} with operand {cents/100} gives {kind} {val!r}; statutory tax is {float(exp)}',
                          {'year': year, 'status': status, 'cents': cents, 'line': which})
        ctx.nt(f'L{which}{year}{status}{cents}')


def run(ctx):
    tier = ctx.tier
    hyp.pmap(ctx, shard_enum, [(y, s, tier) for (y, s) in PAIRS])
    hyp.pmap(ctx, shard_qss, [(y, tier) for y in taxref.YEARS])
    n = 5000 if tier == 'quick' else 200000
    shards = 1 if tier == 'quick' else 16
    hyp.pmap(ctx, shard_random, [(n // shards, ctx.seed * 1000 + k) for k in range(shards)])
    hyp.pmap(ctx, shard_lines, [((1500 if tier == 'quick' else 60000) // 4, ctx.seed * 1000 + 50 + k) for k in range(4)])
    aggregate_undefined(ctx)
    ctx.exhaustive = (tier == 'thorough')
    ctx.extra['rows_in_reference_table'] = len(taxref.all_rows())
    ctx.extra['boundaries_probed'] = sum(len(taxref.boundaries(y, s)) for y, s in PAIRS)
    ctx.extra['exhaustive_scope'] = ('every whole-dollar income in [0,100000) x 5 statuses x 3 years, every table row, every bracket boundary'
                                     if tier == 'thorough' else 'every table row (3 points each) and bracket boundary; whole dollars only in thorough')


def replay(ctx, case):
    if 'line' in case:
        check_line(ctx, case['year'], case['status'], case['cents'], case['line'])
        return
    v = check_point(ctx, case['year'], case['status'], case['cents'])
    if 'cents2' in case:
        v2 = check_point(ctx, case['year'], case['status'], case['cents2'])
        check_pair(ctx, case['year'], case['status'], case['cents'], v, case['cents2'], v2)
    if case.get('pair') == 'MFJ':
        a = call(case['year'], 'MarriedFilingJointly', case['cents'])
        b = call(case['year'], 'QSS', case['cents'])
        if a != b:
            ctx.violation(f'qss:{case["year"]}', f'QSS {b} differs from MFJ {a}', case)
    aggregate_undefined(ctx)
