"""C11 — lines only ever see validated, correctly typed, finite input values.

Adversarial strings per input class are pushed (1) through valid()/value()
against an independent reference gate, (2) through InputStore + the real
solver into a one-line form whose definition logs what it received (file
route), (3) through `habutax solve --prompt-missing` with scripted
invalid-then-valid answers (prompt route), and (4) into real 1040 returns."""
import configparser
import math
import re

from hypothesis import strategies as st

import habutax.enum as henum
import habutax.fields as hf
import habutax.form as hform
import habutax.forms as hforms
import habutax.inputs as hi

from hx import cli, hyp, scenario, solve

PROPERTY = 'C11'
LEVEL = 'exploration'
RULE = ('strings from an adversarial grammar (every Unicode whitespace kind, case variants, signs, exponents, nan/inf/1e999, '
        'underscores, non-ASCII digits, empty, near-miss enumeration names, long digit runs, INI metacharacters) x every input class '
        '(string, boolean, integer, float, enum with/without empty, regex with the shipped patterns, SSN), supplied in the file and '
        'at the prompt; oracle = independent reference gate (valid => typed finite value equal to the reference value, else '
        'InvalidInput / re-prompt; supplied never missing; absent never defaulted). Non-trivial = a string that is not the canonical '
        'spelling of its value (differs from str(value)); distinct = (class, string)'
        ' A rejected file value is also solved with a declining prompt available: it stays an invalid input, never a missing one.')
ASSUMPTIONS = ['reference gate for integer/float uses Python int()/float() on the stripped text plus finiteness, the documented format '
               'suggestions for boolean/enum/SSN, and re.match for regex inputs',
               'texts with "%" are an INI-interpolation matter (C13/C14/C20), excluded from this domain at the file level']

WS = [' ', '\t', '\n', '\r', '\x0b', '\x0c', '\x1c', '\x1f', '\x85', ' ', ' ', ' ', '　', '﻿', '​']
TOKENS = ['', '0', '1', '5', '12', '007', '-3', '+4', '--1', '1.5', '.5', '5.', '1.5.2', '1e3', '1E3', '1e-3', '1e999', '-1e999', '1e-999',
          'nan', 'NaN', 'NAN', '-nan', 'inf', '-inf', '+inf', 'Inf', 'infinity', 'Infinity', '-Infinity', 'inf ', 'nan(1)',
          '1_000', '1__0', '_1', '1_', '0x10', '0b1', '0o7', '1,000', '١٢٣', '１２', '３.５', '٣', '1e٣', '²', '½', '1/2', '1 2',
          'true', 'True', 'TRUE', 'tRuE', 'yes', 'YES', 'y', 'Y', 'on', 'ON', 'false', 'FALSE', 'no', 'No', 'n', 'N', 'off', 'OFF',
          'ye', 'yess', 'nope', 't', 'f', '2', '-0', '01', '0.0', 'none', 'None', 'null',
          'Single', 'single', 'SINGLE', 'Singl', 'Single1', 'MarriedFilingJointly', 'marriedfilingjointly', 'Married Filing Jointly',
          'HeadOfHousehold', 'QualifyingSurvivingSpouse', 'QualifyingWidowWidower', 'NC', 'nc', 'N C', 'NCC', 'taxpayer', 'spouse', 'both',
          'Taxpayer', '__members__', '__class__', 'name', 'value', 'mro', '__doc__', '__module__', '_member_map_', '__len__',
          '123456789', '123-45-6789', '123-456-789', '1234-5-6789', '12345678', '1234567890', '12345678９', '123 45 6789', '-123456789-', '---------',
          '021000021', '121000021', '331000021', '0210000210', '02100002', 'ACCT-001', 'a' * 17, 'a' * 18, 'acct_1', 'acct 1', '9' * 400, '9' * 5000,
          'x', 'Jane Q. Public', 'a=b', 'a:b', '[x]', '#c', ';c', '\x00', 'é', '🙂']


def text_strategy():
    tok = st.sampled_from(TOKENS)
    ws = st.sampled_from(WS)
    padded = st.builds(lambda a, t, b: a + t + b, st.one_of(st.just(''), ws, st.builds(lambda x, y: x + y, ws, ws)), tok,
                       st.one_of(st.just(''), ws))
    glued = st.builds(lambda a, b: a + b, tok, tok)
    inner = st.builds(lambda a, w, b: a + w + b, tok, ws, tok)
    free = st.text(alphabet=st.sampled_from(list('0123456789+-.eE_ \tnaifNAIFyYtTrue') + WS + ['٣', '１']), max_size=10)
    return st.one_of(tok, padded, padded, glued, inner, free)


# ---------------------------------------------------------------------------
# input objects under test + independent reference gate

ROUTING = '^(0[1-9]|1[0-2]|2[1-9]|3[0-2])[0-9]{7}$'
ACCOUNT = '^[0-9A-Za-z\\-]{1,17}$'


def make_inputs():
    return {
        'str': lambda: hi.StringInput('x', description='d'),
        'bool': lambda: hi.BooleanInput('x', description='d'),
        'int': lambda: hi.IntegerInput('x', description='d'),
        'float': lambda: hi.FloatInput('x', description='d'),
        'enum_status': lambda: hi.EnumInput('x', henum.filing_status, description='d'),
        'enum_state_empty': lambda: hi.EnumInput('x', henum.us_states, allow_empty=True, description='d'),
        'enum_owner': lambda: hi.EnumInput('x', henum.taxpayer_spouse_or_both, description='d'),
        'regex_routing': lambda: hi.RegexInput('x', ROUTING, description='d'),
        'regex_account': lambda: hi.RegexInput('x', ACCOUNT, description='d'),
        'ssn': lambda: hi.SSNInput('x', description='d'),
    }


ENUMS = {'enum_status': (henum.filing_status, False), 'enum_state_empty': (henum.us_states, True),
         'enum_owner': (henum.taxpayer_spouse_or_both, False)}
TYPES = {'str': str, 'bool': bool, 'int': int, 'float': float, 'regex_routing': str, 'regex_account': str, 'ssn': str}


def ref_gate(cls, text):
    """(valid, value) by the independent reference"""
    s = text.strip()
    if cls == 'str':
        return True, s
    if cls == 'bool':
        low = s.lower()
        if low in ('true', 'yes', 'y', '1', 'on'):
            return True, True
        if low in ('false', 'no', 'n', '0', 'off'):
            return True, False
        return False, None
    if cls == 'int':
        if s == '':
            return True, 0
        try:
            return True, int(s)
        except ValueError:
            return False, None
    if cls == 'float':
        if s == '':
            return True, 0.0
        try:
            x = float(s)
        except ValueError:
            return False, None
        if math.isnan(x) or math.isinf(x):
            return False, None
        return True, x
    if cls in ENUMS:
        e, allow_empty = ENUMS[cls]
        if s == '' and allow_empty:
            return True, None
        names = [m.name for m in e]
        if s in names:
            return True, [m for m in e if m.name == s][0]
        return False, None
    if cls.startswith('regex'):
        pat = ROUTING if cls == 'regex_routing' else ACCOUNT
        return (re.match(pat, s) is not None), s
    if cls == 'ssn':
        d = s.replace('-', '')
        ok = len(d) == 9 and all(c in '0123456789' for c in d)
        return ok, d
    raise KeyError(cls)


def typed_ok(cls, val):
    if cls in ENUMS:
        e, allow_empty = ENUMS[cls]
        return (val is None and allow_empty) or isinstance(val, e)
    if type(val) is not TYPES[cls]:
        return False
    if isinstance(val, float) and not math.isfinite(val):
        return False
    return True


def same(a, b):
    return type(a) is type(b) and (a == b or (a != a and b != b))


# ---------------------------------------------------------------------------
def check_class_level(ctx, cls, inp, text):
    case = {'class': cls, 'text': text, 'route': 'class'}
    rv, rval = ref_gate(cls, text)
    try:
        v = inp.valid(text)
    except Exception as e:
        ctx.violation(f'{cls}:valid-raises:{type(e).__name__}', f'{cls}.valid({text!r}) raises {e!r}', case)
        return
    if v is not True and v is not False:
        ctx.violation(f'{cls}:valid-not-bool', f'{cls}.valid({text!r}) returned {v!r}', case)
        return
    if v != rv:
        kind = 'accepts-invalid' if v else 'rejects-valid'
        detail = ''
        if v:
            try:
                detail = f' and turns it into {inp.value(text)!r}'
            except Exception as e:
                detail = f' (value() then raises {e!r})'
        ctx.violation(f'{cls}:{kind}', f'{cls}: text {text!r} is {"accepted" if v else "rejected"} by valid(){detail}; reference gate says valid={rv}', case)
        return
    if v:
        try:
            val = inp.value(text)
        except Exception as e:
            ctx.violation(f'{cls}:value-raises-on-valid', f'{cls}: valid({text!r}) is True but value() raises {e!r}', case)
            return
        if not typed_ok(cls, val):
            ctx.violation(f'{cls}:wrong-type-or-nonfinite', f'{cls}: value({text!r}) = {val!r} is not a finite value of the declared type', case)
        elif not same(val, rval):
            ctx.violation(f'{cls}:wrong-value', f'{cls}: value({text!r}) = {val!r}, reference value {rval!r}', case)


class EchoForm(hform.Form):
    form_name = 'echo'
    tax_year = 2099
    description = 'echo'
    long_description = 'one-line form that logs what it receives'
    jurisdiction = hform.Jurisdiction.US
    factory = None
    received = None

    def __init__(self, **kwargs):
        inp = type(self).factory()
        log = type(self).received

        def line(s, i, v):
            val = i['x']
            log.append(val)
            return None
        super().__init__(__class__, [inp], [hf.StringField('seen', line)], [], **kwargs)

    def needs_filing(self, values):
        return False


def check_file_route(ctx, cls, factory, text, present=True):
    """InputStore + real solver; the definition logs what it received"""
    case = {'class': cls, 'text': text, 'route': 'file', 'present': present}
    if '%' in text:
        return
    received = []
    F = type('EchoF', (EchoForm,), {'factory': staticmethod(factory), 'received': received})
    cp = configparser.ConfigParser()
    if present:
        cp.add_section('echo')
        try:
            cp.set('echo', 'x', text)
        except Exception:
            return
    r = solve.run([F], ['echo'], cp, want_solution=False)
    rv, rval = ref_gate(cls, text)
    if present and not rv:
        # the same invalid file value with a prompt available that declines every question: it is still an invalid
        # input (reported as such), never a missing one
        r2 = solve.run([F], ['echo'], cp, answer_fn=lambda inp, nb: None, want_solution=False)
        if not isinstance(r2.exc, hi.InvalidInput) or r2.exc.input_name != 'echo.x':
            ctx.violation(f'{cls}:file-invalid-not-reported-with-prompt', f'{cls}: text {text!r} is invalid; with a (declining) prompt available the outcome was exc={r2.exc!r} '
                          f'verdict={r2.verdict} missing={getattr(r2, "unmet_inputs", None)} prompts={r2.trace.prompts}', dict(case, prompt='declining'))
    if not present:
        if received or r.exc is not None or r.verdict or 'echo.x' not in r.unmet_inputs:
            ctx.violation(f'{cls}:absent-not-missing', f'{cls}: input absent from the file but received={received} exc={r.exc!r} verdict={r.verdict} missing={getattr(r, "unmet_inputs", None)}', case)
        return
    if rv:
        if r.exc is not None:
            ctx.violation(f'{cls}:file-valid-rejected', f'{cls}: text {text!r} is valid (reference) but the solve raised {r.exc!r}', case)
        elif len(received) != 1 or not typed_ok(cls, received[0]) or not same(received[0], rval):
            ctx.violation(f'{cls}:file-received-wrong', f'{cls}: text {text!r}: definition received {received!r}, reference value {rval!r}; missing={r.unmet_inputs}', case)
    else:
        if received:
            ctx.violation(f'{cls}:file-invalid-reached-line', f'{cls}: text {text!r} is not valid (reference) but the definition received {received[0]!r}', case)
        elif not isinstance(r.exc, hi.InvalidInput) or r.exc.input_name != 'echo.x':
            ctx.violation(f'{cls}:file-invalid-not-reported', f'{cls}: text {text!r} is invalid but the outcome was exc={r.exc!r} verdict={r.verdict} missing={getattr(r, "unmet_inputs", None)}', case)


def check_prompt_route(ctx, cls, factory, texts):
    """`habutax solve --prompt-missing --writeback-input` with scripted answers;
    the first reference-valid answer must be the one the definition receives"""
    texts = [t for t in texts if '%' not in t and '\n' not in t and '\r' not in t]
    if not texts:
        return
    case = {'class': cls, 'texts': texts, 'route': 'prompt'}
    received = []
    F = type('EchoF', (EchoForm,), {'factory': staticmethod(factory), 'received': received})
    orig = hforms.available_forms.get(2099)
    hforms.available_forms[2099] = [F]
    try:
        with cli.scratch() as d:
            script = cli.Script(texts)
            o = cli.solve(d, 2099, ['echo'], input_text='', prompt_missing=True, writeback=True, solution=True, script=script)
    finally:
        if orig is None:
            del hforms.available_forms[2099]
        else:
            hforms.available_forms[2099] = orig
    first_valid = None
    for k, t in enumerate(texts):
        if ref_gate(cls, t)[0]:
            first_valid = k
            break
    if first_valid is None:
        if received:
            ctx.violation(f'{cls}:prompt-invalid-accepted', f'{cls}: none of {texts!r} is valid but the definition received {received!r}', case)
        return
    rval = ref_gate(cls, texts[first_valid])[1]
    if o.exc is not None:
        ctx.violation(f'{cls}:prompt-valid-raises', f'{cls}: answers {texts!r}: solve raised {o.exc!r}', case)
    elif script.pos != first_valid + 1:
        ctx.violation(f'{cls}:prompt-wrong-answer-taken', f'{cls}: answers {texts!r}: {script.pos} answers consumed, the first valid one is #{first_valid + 1}', case)
    elif len(received) != 1 or not same(received[0], rval) or not typed_ok(cls, received[0]):
        ctx.violation(f'{cls}:prompt-received-wrong', f'{cls}: answers {texts!r}: definition received {received!r}, reference {rval!r}', case)


def check_store_multi(ctx, items, order):
    """one InputStore holding several inputs (same and different classes, often
    the same text) read in a drawn order: every read must agree with the
    reference gate for *that* input, whatever was read before (the gate has no
    memory)"""
    facts = make_inputs()
    cp = configparser.ConfigParser()
    cp.add_section('echo')
    specs = {}
    form = type('F', (), {'name': lambda self: 'echo'})()
    for j, (cls, text) in enumerate(items):
        if text is not None and '%' in text:
            return
        inp = facts[cls]()
        inp._name = f'x{j}'
        inp.__form_init__(form)
        specs[inp.name()] = inp
        if text is None:
            continue          # declared, section present, but this input is not supplied
        try:
            cp.set('echo', f'x{j}', text)
        except Exception:
            return
    store = hi.InputStore(cp, specs)
    case = {'route': 'multi', 'items': [list(x) for x in items], 'order': list(order)}
    ctx.case()
    for j in order:
        cls, text = items[j]
        if text is None:
            try:
                got = store[f'echo.x{j}']
                ctx.violation(f'{cls}:multi-absent-defaulted', f'{cls}: input x{j} of {items} is not supplied (its section is) but the store returned {got!r} instead of reporting it missing', case)
                return
            except hi.MissingInput:
                continue
            except Exception as e:
                ctx.violation(f'{cls}:multi-absent-raises:{type(e).__name__}', f'{cls}: input x{j} of {items} is not supplied; the store raised {e!r} instead of MissingInput', case)
                return
        rv, rval = ref_gate(cls, text)
        got = None
        try:
            got = store[f'echo.x{j}']
            outcome = 'value'
        except hi.InvalidInput:
            outcome = 'invalid'
        except Exception as e:
            outcome = 'raises:' + type(e).__name__
            got = e
        if rv and (outcome != 'value' or not typed_ok(cls, got) or not same(got, rval)):
            ctx.violation(f'{cls}:multi-valid-wrong', f'{cls}: text {text!r} (input x{j} of {items}, read order {order}) should give {rval!r}; store gave {outcome} {got!r}', case)
            return
        if not rv and outcome != 'invalid':
            ctx.violation(f'{cls}:multi-invalid-not-rejected', f'{cls}: text {text!r} (input x{j} of {items}, read order {order}) is invalid; store gave {outcome} {got!r}', case)
            return
    if len({t for _, t in items}) < len(items) or any(t is None for _, t in items):
        ctx.nt({'m': case['items'], 'o': case['order']})


# ---------------------------------------------------------------------------
def shard_multi(ctx, k, payload):
    n, seed = payload
    classes = sorted(make_inputs())
    groups = [['regex_routing', 'regex_account', 'str', 'ssn'], ['enum_status', 'enum_state_empty', 'enum_owner', 'str'],
              ['int', 'float', 'bool', 'str'], classes]

    def body(data):
        grp = data.draw(st.sampled_from(groups))
        m = data.draw(st.integers(2, 4))
        shared = data.draw(text_strategy())
        items = []
        for _ in range(m):
            cls = data.draw(st.sampled_from(grp))
            text = shared if data.draw(st.integers(0, 3)) else data.draw(text_strategy())
            if data.draw(st.integers(0, 5)) == 0:
                text = None
            items.append((cls, text))
        order = list(data.draw(st.permutations(list(range(m)))))
        if data.draw(st.booleans()):
            order = order + list(data.draw(st.permutations(list(range(m)))))     # read everything twice
        check_store_multi(ctx, items, order)
        ctx.count('route:multi')
    hyp.run_data(body, n, seed)


def shard_strings(ctx, k, payload):
    n, seed = payload
    facts = make_inputs()
    objs = {c: f() for c, f in facts.items()}
    for c, o in objs.items():
        o.__form_init__(type('F', (), {'name': lambda self: 'echo'})())
    classes = sorted(facts)

    def body(args):
        cls, text, route, extra = args
        ctx.case()
        ctx.count('route:' + route)
        ctx.count('class:' + cls)
        rv, rval = ref_gate(cls, text)
        ctx.count('ref:' + ('valid' if rv else 'invalid'))
        if not (rv and text == str(rval)):
            ctx.nt(f'{cls}|{text}')
        if route == 'class':
            check_class_level(ctx, cls, objs[cls], text)
        elif route == 'file':
            check_file_route(ctx, cls, facts[cls], text)
        elif route == 'absent':
            check_file_route(ctx, cls, facts[cls], text, present=False)
        else:
            check_prompt_route(ctx, cls, facts[cls], extra + [text])
        if len(ctx.samples) < 6 and not rv and route == 'file':
            ctx.sample({'class': cls, 'text': text, 'route': route, 'reference_valid': rv})
    strat = st.tuples(st.sampled_from(classes), text_strategy(),
                      st.sampled_from(['class', 'class', 'class', 'class', 'file', 'file', 'file', 'prompt', 'absent']),
                      st.lists(text_strategy(), max_size=3))
    hyp.run_given(strat, body, n, seed)


def shard_real(ctx, k, payload):
    """adversarial text in one input of a real solved return"""
    n, seed = payload

    def body(data):
        p = data.draw(scenario.personas(forms=['1040']))
        sc, r0 = scenario.build(p, data.draw)
        if r0.exc is not None:
            return
        keys = sorted(sc['inputs'])
        key = data.draw(st.sampled_from(keys))
        text = data.draw(text_strategy())
        if '%' in text:
            return
        inp = r0.solver._input_map[key]
        kind = type(inp).__name__
        inputs = dict(sc['inputs'])
        inputs[key] = text
        try:
            cp = solve.config_from_dict(inputs)
        except Exception:
            return
        import habutax.forms as hforms2
        r = solve.run(hforms2.available_forms[sc['year']], sc['forms'], cp, want_solution=False)
        ctx.case()
        ctx.count('real:' + kind)
        v = inp.valid(text)
        case = {'route': 'real', 'year': sc['year'], 'forms': sc['forms'], 'inputs': inputs, 'key': key}
        reads = [(o, val) for name, rd, _ in r.trace.attempts for kd, ky, o, val in rd if kd == 'i' and ky == key]
        if v:
            if isinstance(r.exc, hi.InvalidInput) and r.exc.input_name == key:
                ctx.violation('real:valid-reported-invalid', f'{key}={text!r} passes valid() but InvalidInput was raised', case)
            for o, val in reads:
                if o == 'ok' and isinstance(val, float) and not math.isfinite(val):
                    ctx.violation('real:nonfinite-reached-line', f'{key}={text!r}: a line received {val!r}', case)
        else:
            if any(o == 'ok' for o, _ in reads):
                ctx.violation('real:invalid-reached-line', f'{key}={text!r} fails valid() but a line received a value', case)
            if reads and not (isinstance(r.exc, hi.InvalidInput) and r.exc.input_name == key) and r.exc is None:
                ctx.violation('real:invalid-not-reported', f'{key}={text!r} is invalid and was read, but solve returned {r.verdict}', case)
        if key in getattr(r, 'unmet_inputs', {}):
            ctx.violation('real:supplied-reported-missing', f'{key} was supplied ({text!r}) but is reported missing', case)
        ctx.nt(f'real|{kind}|{text}')
    hyp.run_data(body, n, seed)


def run(ctx):
    quick = ctx.tier == 'quick'
    n = 20000 if quick else 2000000
    shards = 8 if quick else 16
    hyp.pmap(ctx, shard_strings, [(n // shards, ctx.seed * 1000 + k) for k in range(shards)])
    nm = 6000 if quick else 400000
    hyp.pmap(ctx, shard_multi, [(nm // 4, ctx.seed * 1000 + 400 + k) for k in range(4)])
    nr = 120 if quick else 3000
    hyp.pmap(ctx, shard_real, [(nr // 4, ctx.seed * 1000 + 900 + k) for k in range(4)])


def replay(ctx, case):
    facts = make_inputs()
    route = case['route']
    if route == 'real':
        import habutax.forms as hforms2
        cp = solve.config_from_dict(case['inputs'])
        r = solve.run(hforms2.available_forms[case['year']], case['forms'], cp, want_solution=False)
        key = case['key']
        text = case['inputs'][key]
        inp = r.solver._input_map.get(key)
        reads = [(o, val) for name, rd, _ in r.trace.attempts for kd, ky, o, val in rd if kd == 'i' and ky == key]
        if inp is not None and inp.valid(text):
            for o, val in reads:
                if o == 'ok' and isinstance(val, float) and not math.isfinite(val):
                    ctx.violation('real:nonfinite-reached-line', f'{key}={text!r}: a line received {val!r}', case)
        elif any(o == 'ok' for o, _ in reads):
            ctx.violation('real:invalid-reached-line', f'{key}={text!r}', case)
        return
    if route == 'multi':
        check_store_multi(ctx, [tuple(x) for x in case['items']], case['order'])
        return
    cls = case['class']
    if route == 'class':
        o = facts[cls]()
        o.__form_init__(type('F', (), {'name': lambda self: 'echo'})())
        check_class_level(ctx, cls, o, case['text'])
    elif route == 'file':
        check_file_route(ctx, cls, facts[cls], case['text'], present=case.get('present', True))
    else:
        check_prompt_route(ctx, cls, facts[cls], case['texts'])
