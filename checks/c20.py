"""C20 — interrupting an interactive solve never loses input already given.

Fault enumeration: for each explored interactive session (a real return with a
partial initial file and scripted answers, some preceded by an invalid answer)
every input() call index k in [0, n] is interrupted, for each kind of
interruption: Ctrl-C at the prompt, end of input, an unsupported form reached
after k answers, a line definition failing after k answers - through
`habutax solve --prompt-missing --writeback-input`."""
import configparser
import re

from hypothesis import strategies as st

import habutax.fields as hfields
import habutax.solver as hsolver

from hx import catalog, cli, hyp, scenario, solve

PROPERTY = 'C20'
LEVEL = 'fault_enumeration'
RULE = ('sessions = real 2021-2023 returns (answer-on-demand) restarted from a partial initial file with scripted answers (literal '
        'texts incl. "%", some preceded by an invalid answer); for each session the uninterrupted run fixes the number n of input() '
        'calls, then every k in [0, n] x {KeyboardInterrupt, EOFError, unsupported form, failing line} is injected (exhaustive over k). '
        'Oracle: file parses strictly, contains every (section,key,value) it held before and every answer accepted before the '
        'interruption, and a re-run never prompts for those. Non-trivial = an interruption with 0 < k < n; distinct = (session, k, kind)'
        " Initial files are plain or commented templates (the rewritten file is then shorter than the one it replaces); a quarter of the sessions start from a file holding a value the year's input rejects."
        ' A re-run on the file that was left behind must not raise.')
ASSUMPTIONS = ['an "answer given" is a valid answer returned by input(); an invalid answer followed by the re-prompt is not stored',
               'the unsupported-form and failing-line faults are injected from the harness by substituting Solver._add_form / TypedField.value for the duration of one run']

HEADER = re.compile(r'----\[ (\S+) \]----')
KINDS = ['int', 'eof', 'unsupported', 'line_fail']


class Session(object):
    def __init__(self, year, forms, initial, answers, invalid_first, layout='plain'):
        self.layout = layout            # 'plain' | 'commented': the initial file as a hand-edited template with comment lines
        self.year = year
        self.forms = forms
        self.initial = initial          # dict
        self.answers = answers          # dict name -> text
        self.invalid_first = invalid_first  # set of names that get an invalid answer first

    def desc(self):
        return {'year': self.year, 'forms': self.forms, 'initial': self.initial, 'answers': self.answers,
                'invalid_first': sorted(self.invalid_first), 'layout': self.layout}

    def initial_text(self):
        if self.layout == 'plain':
            return solve.config_to_text(solve.config_from_dict(self.initial))
        # what `habutax list-form-inputs` hands the user to fill in: explanatory comment lines around every key.
        # habutax rewrites the file without them, so the written file is shorter than the one it replaces
        by_sec = {}
        for full, t in self.initial.items():
            sec, key = full.split('.', 1)
            by_sec.setdefault(sec, []).append((key, t))
        out = ['# Input file for habutax - fill in the values after the equals signs', '#' * 78, '']
        for sec in sorted(by_sec):
            out += [f'[{sec}]', '# ' + 'values for this form; see the form instructions for details ' * 2]
            for key, t in by_sec[sec]:
                out += [f'# {key}: enter the amount or answer exactly as it is printed on the paper form', f'{key} = {t}', '']
        return '\n'.join(out) + '\n'


def invalid_for(year, name):
    cat = catalog.get(year)
    cat.ensure(name.split('.')[0])
    inp = cat.inputs.get(name)
    k = catalog.input_kind(inp) if inp is not None else 'str'
    return {'bool': 'maybe', 'int': 'x1', 'float': 'abc', 'enum': 'NoSuchMember', 'ssn': '12', 'regex': '!!'}.get(k)


def run_session(sess, d, k=None, kind=None, initial_text=None):
    """one CLI run; returns (out, calls) where calls = [(input name, text returned | marker)]"""
    calls = []
    pending_invalid = set(sess.invalid_first)
    accepted = []
    state = {'answers_given': 0, 'current': None}

    def fn(ptxt, idx):
        m = HEADER.search(ptxt)
        if m is not None:
            state['current'] = m.group(1)
        name = state['current']
        if k is not None and idx == k and kind in ('int', 'eof'):
            calls.append((name, '<' + kind + '>'))
            return cli.Script.INT if kind == 'int' else cli.Script.EOF
        if name in pending_invalid:
            bad = invalid_for(sess.year, name)
            pending_invalid.discard(name)
            if bad is not None:
                calls.append((name, bad))
                return bad
        t = sess.answers.get(name)
        if t is None:
            cat = catalog.get(sess.year)
            cat.ensure(name.split('.')[0])
            t = scenario.fallback(cat.inputs[name])
        calls.append((name, t))
        accepted.append((name, t))
        state['answers_given'] += 1
        return t

    script = cli.FnScript(fn)
    text = initial_text if initial_text is not None else sess.initial_text()
    orig_value = hfields.TypedField.value
    orig_add = hsolver.Solver._add_form
    if kind == 'line_fail' and k is not None:
        def failing(self, inputs, values):
            if len(script.prompts) >= k:
                raise RuntimeError('injected line failure (C20)')
            return orig_value(self, inputs, values)
        hfields.TypedField.value = failing
    if kind == 'unsupported' and k is not None:
        def add_form(self, form_name, input_only=False):
            if len(script.prompts) >= k and getattr(self, '_hx_started', False):
                raise NotImplementedError('Form 8962 is not supported.')
            return orig_add(self, form_name, input_only=input_only)
        hsolver.Solver._add_form = add_form
        orig_solve = hsolver.Solver.solve

        def solve_(self, form_names, field_names=[]):
            # let the requested forms load; faults start once solving is under way
            for fnm in form_names:
                orig_add(self, fnm)
            self._hx_started = True
            return orig_solve(self, [], field_names)
        hsolver.Solver.solve = solve_
    try:
        o = cli.solve(d, sess.year, sess.forms, input_text=text, prompt_missing=True, writeback=True, solution=True, script=script)
    finally:
        hfields.TypedField.value = orig_value
        hsolver.Solver._add_form = orig_add
        if kind == 'unsupported' and k is not None:
            hsolver.Solver.solve = orig_solve
    o.calls = calls
    o.accepted = accepted
    o.ncalls = len(script.prompts)
    return o


def strict_parse(text):
    cp = configparser.ConfigParser(strict=True)
    cp.read_string(text)
    return cp


def check_after(ctx, sess, o, k, kind, d, case):
    key = f'{kind}'
    try:
        cp = strict_parse(o.input_after)
    except Exception as e:
        ctx.violation(f'{key}:file-unparsable', f'after {kind} at call {k}: the input file does not parse: {e!r}', case)
        return
    def get(name):
        sec, opt = name.split('.', 1)
        try:
            return cp.get(sec, opt) if cp.has_option(sec, opt) else None
        except Exception as e:
            return e
    for name, t in sess.initial.items():
        got = get(name)
        if not isinstance(got, str) or got.strip() != t.strip():
            ctx.violation(f'{key}:prior-value-lost', f'after {kind} at call {k}: {name} held {t!r} before and now reads {got!r}', case)
            return
    for name, t in o.accepted:
        got = get(name)
        if not isinstance(got, str) or got.strip() != t.strip():
            ctx.violation(f'{key}:answer-lost', f'after {kind} at call {k} (solve raised {o.exc!r}): the answer {t!r} given for {name} is not in the file (found {got!r})', case)
            return
    # re-run must not ask for them again
    have = set(sess.initial) | {n for n, _ in o.accepted}
    sess2 = Session(sess.year, sess.forms, sess.initial, sess.answers, set(), sess.layout)
    o2 = run_session(sess2, d, initial_text=o.input_after)
    if o2.exc is not None and (isinstance(o2.exc, configparser.Error) or (isinstance(o2.exc, ValueError) and 'nterpolation' in str(o2.exc))):
        # an error of the INI reader (not of the solve: a return that cannot be computed fails the same way when re-run):
        # the file that habutax left behind cannot be read by habutax
        ctx.violation(f'{key}:rerun-raises:{type(o2.exc).__name__}', f'after {kind} at call {k}: re-running on the file that was left behind raised {o2.exc!r}', case)
        return
    again = [n for n, t in o2.calls if n in have]
    if again:
        ctx.violation(f'{key}:asked-again', f'after {kind} at call {k}: the re-run prompted again for {again[:4]}', case)
    # the re-run writes the file back as habutax itself read it: everything given so far must still be there
    try:
        cp2 = strict_parse(o2.input_after)
    except Exception as e:
        ctx.violation(f'{key}:file-unparsable-after-rerun', f'after {kind} at call {k} and a re-run: {e!r}', case)
        return
    for name, t in list(sess.initial.items()) + list(o.accepted):
        sec, opt = name.split('.', 1)
        try:
            got = cp2.get(sec, opt) if cp2.has_option(sec, opt) else None
        except Exception as e:
            got = e
        if not isinstance(got, str) or got.strip() != t.strip():
            ctx.violation(f'{key}:value-lost-on-rerun', f'after {kind} at call {k}: {name}={t!r} was in the file, but after re-running on it (habutax reads and writes the file back) it is {got!r}', case)
            return


def explore_session(ctx, sess, kinds, ks=None):
    with cli.scratch() as d:
        base = run_session(sess, d)
        n = base.ncalls
        ctx.case()
        ctx.count('sessions')
        ctx.count('prompt_calls_total', n)
        case0 = {'session': sess.desc()}
        if base.exc is None:
            check_after(ctx, sess, base, None, 'uninterrupted', d, dict(case0, k=None, kind='uninterrupted'))
        for kind in kinds:
            for k in (ks if ks is not None else range(0, n + 1)):
                o = run_session(sess, d, k=k, kind=kind)
                ctx.case()
                ctx.count('fault:' + kind)
                if 0 < k < n:
                    ctx.nt({'s': sess.desc(), 'k': k, 'kind': kind})
                check_after(ctx, sess, o, k, kind, d, dict(case0, k=k, kind=kind))
                if kind in ('eof', 'line_fail', 'unsupported') and o.exc is None and k < n:
                    ctx.count('fault_did_not_propagate:' + kind)
        # the natural unsupported-form recipe: declaring marketplace insurance reaches Schedule 2
        if '1040.need_8962' not in sess.initial and 'unsupported' in kinds:
            sess3 = Session(sess.year, sess.forms, sess.initial, dict(sess.answers, **{'1040.need_8962': 'yes'}), sess.invalid_first, sess.layout)
            o = run_session(sess3, d)
            ctx.case()
            ctx.count('fault:need_8962_recipe')
            if isinstance(o.exc, NotImplementedError):
                ctx.count('need_8962_recipe_aborted')
                ctx.nt({'s': sess.desc(), 'recipe': 'need_8962'})
            check_after(ctx, sess3, o, 'natural', 'need_8962', d, dict(case0, k='natural', kind='need_8962', session=sess3.desc()))
    return n


def shard(ctx, k_, payload):
    n, seed = payload

    def body(data):
        p = data.draw(scenario.personas(forms=data.draw(st.sampled_from([['1040'], ['1040'], ['1040', 'nc_d-400']]))))
        sc, r0 = scenario.build(p, data.draw)
        keys = sorted(sc['inputs'])
        # most inputs stay in the file, a handful are asked at the prompt (keeps n around 5-40)
        share = data.draw(st.sampled_from([0.5, 0.8, 0.9, 0.95]))
        initial = {k: v for k, v in sc['inputs'].items() if data.draw(st.integers(0, 99)) < share * 100}
        if data.draw(st.booleans()):
            initial.pop('1040.need_8962', None)
        answers = {k: v for k, v in sc['inputs'].items()}
        cat = catalog.get(sc['year'])
        for k in keys:
            if k not in initial:
                cat.ensure(k.split('.')[0])
                inp = cat.inputs.get(k)
                if inp is not None and catalog.input_kind(inp) == 'str' and data.draw(st.integers(0, 4)) == 0:
                    answers[k] = data.draw(st.sampled_from(['100% sure', 'a (b', 'x\\y', '50 %', "O'Neil; #1", '12 Elm St #4', '#4', 'a ;b', 'k = v']))
        invalid_first = {k for k in keys if k not in initial and data.draw(st.integers(0, 5)) == 0}
        layout = data.draw(st.sampled_from(['plain', 'commented']))
        if data.draw(st.integers(0, 3)) == 0 and initial:
            # a value in the file that the chosen year's input rejects (a file carried over from another year, a typo):
            # the run stops with an error; the file must still hold it and everything else
            cands = [k for k in sorted(initial) if invalid_for(sc['year'], k) is not None and cat.inputs.get(k) is not None
                     and catalog.input_kind(cat.inputs[k]) in ('bool', 'int', 'float', 'enum')]
            if cands:
                bad_key = data.draw(st.sampled_from(cands))
                initial[bad_key] = invalid_for(sc['year'], bad_key)
                ctx.count('sessions_with_invalid_initial_value')
        sess = Session(sc['year'], sc['forms'], initial, answers, invalid_first, layout)
        nn = explore_session(ctx, sess, KINDS)
        if len(ctx.samples) < 3:
            ctx.sample({'year': sess.year, 'forms': sess.forms, 'initial_keys': len(initial), 'input_calls_uninterrupted': nn,
                        'interruption_points': (nn + 1) * len(KINDS), 'invalid_first': sorted(invalid_first)[:3]})
    hyp.run_data(body, n, seed)


def run(ctx):
    quick = ctx.tier == 'quick'
    n = 24 if quick else 320     # the first example of each shard is Hypothesis' minimal one (nothing to ask)
    shards = 12 if quick else 16
    hyp.pmap(ctx, shard, [(max(1, n // shards), ctx.seed * 1000 + k) for k in range(shards)])
    ctx.exhaustive = False
    ctx.extra['fault_points'] = 'every input() call index k in [0, n] of every explored session x 4 kinds'


def replay(ctx, case):
    s = case['session']
    sess = Session(s['year'], s['forms'], s['initial'], s['answers'], set(s['invalid_first']), s.get('layout', 'plain'))
    kind = case['kind']
    if kind in KINDS:
        explore_session(ctx, sess, [kind], ks=[case['k']])
    else:
        explore_session(ctx, sess, ['unsupported'], ks=[])
