"""C18 — each PDF box is filled from the line the official template assigns to it.

Exhaustive over every pdf mapping of every form in every year against the
template parsed by hx/pdf.py (AcroForm field tree, /MaxLen, button on-states,
/Opt; XFA <speak> text and comb/maxChars per widget). For button groups every
value of the driving line is enumerated."""
import json
import os
import re

import habutax.fields as hf
import habutax.pdf_fields as hpf

from hx import catalog, pdf

PROPERTY = 'C18'
LEVEL = 'exploration'
RULE = ('exhaustive: every (year, form, mapping) triple is checked against the parsed template: target exists; where the widget\'s '
        'accessibility text (IRS) or field name (NC) carries a line label and the mapped line\'s name is itself a line label, they agree; '
        'button true-values are on-states; max_length equals /MaxLen or the comb/maxChars limit; choice lists equal /Opt; no target mapped '
        'twice; same-named sibling check boxes have at most one "on" for every value of the driving line (all booleans / enum members / '
        'None enumerated); every form that can need filing has a template and mappings; every mapped line exists. Every mapping is a '
        'distinct non-trivial case'
        ' Boxes named ...yes / ...no are one question: one driving line, exactly one on for each of its values.')
ASSUMPTIONS = ['label comparison only when the mapped line name matches ^\\d+[a-z]?$ (helper lines such as 8_gt_11 carry no label claim)',
               'data/label_exceptions.json lists reviewed widgets whose accessibility text does not label the field with the mapped line']

HERE = os.path.dirname(os.path.dirname(os.path.abspath(__file__)))
with open(os.path.join(HERE, 'data', 'label_exceptions.json')) as _f:
    LABEL_EXC = json.load(_f)['exceptions']

LABEL_RE = re.compile(r'^(?:Part [IVX]+[^.]*\.\s*)?(?:Line\s+)?(\d{1,2}[a-z]?)\s*[.:]\s', re.I)
NAME_RE = re.compile(r'^\d+[a-z]?$')
NC_RE = re.compile(r'_li(\d+[a-z]?)(?:_|$)')


def speak_label(text):
    if not text:
        return None
    m = LABEL_RE.match(text)
    return m.group(1).lower() if m else None


def label_agrees(label, line):
    if label == line:
        return True
    # "25" labels the group 25a/25b/...; "1" vs "1a"
    m = re.match(r'^(\d+)([a-z]?)$', line)
    l = re.match(r'^(\d+)([a-z]?)$', label)
    if not m or not l:
        return False
    if m.group(1) != l.group(1):
        return False
    return l.group(2) == '' or m.group(2) == ''


def driving_values(field):
    if isinstance(field, hf.BooleanField):
        return [True, False]
    if isinstance(field, hf.EnumField):
        return list(field.enum()) + [None]
    if isinstance(field, hf.IntegerField):
        return [0, 1, 2, 5]
    if isinstance(field, hf.FloatField):
        return [0.0, 1.0, 1234.56]
    return ['', 'x']


def check_form(ctx, year, cat, fname, form):
    maps = form.pdf_fields()
    if not maps:
        return
    case0 = {'year': year, 'form': fname}
    key0 = f'{year}:{fname.split(":")[0]}'
    path = form.pdf_file()
    if not path or not os.path.isfile(path):
        ctx.violation(f'{key0}:no-template', f'{year} {fname}: has {len(maps)} mappings but template {path!r} does not exist', case0)
        return
    tf = pdf.template_fields(path)
    xf = pdf.xfa_fields(path)
    is_nc = not xf
    targets = {}
    groups = {}
    for m in maps:
        ctx.case()
        target = m.pdf_field_name
        lname = m.field_name if '.' in m.field_name else f'{fname}.{m.field_name}'
        base_line = lname.split('.', 1)[1]
        case = dict(case0, target=target, line=m.field_name, kind=type(m).__name__)
        key = f'{key0}:{target}'
        ctx.nt(f'{year}|{fname}|{target}')
        ctx.count('mapping:' + type(m).__name__)
        targets.setdefault(target, []).append(m.field_name)
        cat.ensure(lname.split('.')[0])
        line = cat.lines.get(lname)
        if line is None:
            ctx.violation(f'{key}:line-missing', f'{year} {fname}: mapping {target} <- {m.field_name}: no such line in the {year} catalogue', case)
            continue
        info = tf.get(target)
        if info is None:
            ctx.violation(f'{key}:target-missing', f'{year} {fname}: mapping {m.field_name} -> {target}: the template has no such field', case)
            continue
        # kind agreement
        if isinstance(m, hpf.ButtonPDFField) and info['ft'] != 'Btn':
            ctx.violation(f'{key}:kind', f'{year} {fname}: {target} is a {info["ft"]} field but is mapped as a button', case)
        if isinstance(m, hpf.TextPDFField) and info['ft'] != 'Tx':
            ctx.violation(f'{key}:kind', f'{year} {fname}: {target} is a {info["ft"]} field but is mapped as text', case)
        if isinstance(m, hpf.ChoicePDFField) and info['ft'] != 'Ch':
            ctx.violation(f'{key}:kind', f'{year} {fname}: {target} is a {info["ft"]} field but is mapped as a choice', case)
        # label
        if NAME_RE.match(base_line) and '.' not in m.field_name:
            label = None
            src = None
            if not is_nc:
                src = xf.get(target, {}).get('speak')
                label = speak_label(src)
            else:
                mm = NC_RE.search(target)
                label = mm.group(1).lower() if mm else None
                src = target
            if label is not None:
                ctx.count('label:compared')
                exc = f'{year}:{fname.split(":")[0]}:{target}' in LABEL_EXC or f'*:{fname.split(":")[0]}:{target.split(".")[-1]}:{base_line}' in LABEL_EXC
                if not label_agrees(label, base_line):
                    if exc:
                        ctx.count('label:reviewed-exception')
                    else:
                        ctx.violation(f'{key}:label', f'{year} {fname}: template labels {target} as line {label!r} ({src!r}) but it is filled from line {base_line!r}', case)
            else:
                ctx.count('label:no-label-in-template')
        else:
            ctx.count('label:line-name-is-not-a-label')
        # limits
        if isinstance(m, hpf.TextPDFField):
            limits = [info['maxlen']] if info['maxlen'] else []
            x = xf.get(target, {})
            tmpl_limit = info['maxlen'] or x.get('maxchars') or x.get('comb')
            if m.max_length is not None:
                ctx.count('limit:declared')
                if tmpl_limit is None:
                    ctx.count('limit:declared-but-template-has-none')
                elif m.max_length != tmpl_limit and not (info['maxlen'] is None and m.max_length >= tmpl_limit):
                    if m.max_length != info['maxlen']:
                        ctx.violation(f'{key}:maxlen', f'{year} {fname}: {target} max_length={m.max_length} but the template limit is {tmpl_limit}', case)
            elif info['maxlen']:
                ctx.violation(f'{key}:maxlen-omitted', f'{year} {fname}: {target} has /MaxLen {info["maxlen"]} in the template but the mapping declares no max_length', case)
        # button states
        if isinstance(m, hpf.ButtonPDFField):
            on = {s for s in info['states'] if s != 'Off'}
            if m._true_value not in on:
                ctx.violation(f'{key}:on-state', f'{year} {fname}: {target} true value {m._true_value!r} is not an on-state of the widget ({sorted(on)})', case)
            stem = re.sub(r'\[\d+\]$', '', target)
            groups.setdefault((stem, lname), []).append((m, line))
            # radio parents in NC templates: same /T parent
        if isinstance(m, hpf.ChoicePDFField):
            if info['opt'] is not None and sorted(m._choices) != sorted(info['opt']):
                ctx.violation(f'{key}:choices', f'{year} {fname}: {target} choices {sorted(m._choices)[:5]} differ from the template /Opt {sorted(info["opt"])[:5]}', case)
        # value function does not crash on any driving value
        for v in driving_values(line):
            try:
                m.value(v, line)
            except (hpf.PDFValueTooLong, hpf.PDFInvalidChoiceValue, NotImplementedError):
                pass
            except Exception as e:
                ctx.violation(f'{key}:value-fn-raises', f'{year} {fname}: {target} value function raises {e!r} for {m.field_name}={v!r}', case)
                break
    for target, lines in targets.items():
        if len(lines) > 1:
            ctx.violation(f'{key0}:{target}:mapped-twice', f'{year} {fname}: template field {target} is the target of {len(lines)} mappings ({lines})', dict(case0, target=target))
    # exclusivity within same-stem sibling boxes driven by the same line
    for (stem, lname), members in groups.items():
        if len(members) < 2:
            continue
        line = members[0][1]
        for v in driving_values(line):
            ctx.case()
            ctx.count('group-value-checks')
            on = []
            for m, ln in members:
                try:
                    if m.value(v, ln) != 'Off':
                        on.append(m.pdf_field_name)
                except Exception:
                    pass
            if len(on) > 1:
                ctx.violation(f'{key0}:{stem}:not-exclusive', f'{year} {fname}: for {lname}={v!r} the boxes {on} are all on', dict(case0, target=stem, line=lname, value=repr(v)))


def check_status_groups(ctx, year, cat, fname, form):
    """boxes whose names differ only in a trailing number (NC: y_d400wf_fstat1..5) and that are driven by
    different boolean lines: for every filing status at most one of them is on"""
    from checks import c08
    from hx import scenario
    groups = {}
    for m in form.pdf_fields():
        if isinstance(m, hpf.ButtonPDFField) and '.' not in m.field_name:
            mm = re.match(r'^(.*?[A-Za-z_])(\d+)$', m.pdf_field_name)
            if mm:
                groups.setdefault(mm.group(1), []).append(m)
    for stem, members in groups.items():
        lines = {m.field_name for m in members}
        if len(members) < 3 or len(lines) < len(members):
            continue
        for status in scenario.STATUSES:
            on = []
            ok = True
            for m in members:
                kind, val = c08.evaluate(year, f'{fname}.{m.field_name}', {'i:1040.filing_status': {'enum': scenario.status_name(year, status)}}, None)
                if kind != 'value':
                    ok = False
                    break
                line = cat.lines[f'{fname}.{m.field_name}']
                if m.value(val, line) != 'Off':
                    on.append(m.pdf_field_name)
            if not ok:
                break
            ctx.case()
            ctx.count('status-group-checks')
            ctx.nt(f'{year}|{fname}|{stem}|{status}')
            if len(on) != 1:
                ctx.violation(f'{year}:{fname.split(":")[0]}:{stem}:status-group', f'{year} {fname}: for filing status {status} the boxes {stem}N that are on: {on} (expected exactly one)',
                              {'year': year, 'form': fname, 'target': stem})


def check_yes_no_pairs(ctx, year, cat, fname, form):
    """two boxes named ...yes / ...no (N.C. forms) are one question: the same line drives both and for each of its two
    values exactly one of them is on"""
    pairs = {}
    for m in form.pdf_fields():
        if isinstance(m, hpf.ButtonPDFField):
            mm = re.match(r'^(.*?)\d*(yes|no)$', m.pdf_field_name, re.I)
            if mm:
                pairs.setdefault(mm.group(1), {}).setdefault(mm.group(2).lower(), []).append(m)
    for stem, d in sorted(pairs.items()):
        if len(d.get('yes', [])) != 1 or len(d.get('no', [])) != 1:
            continue
        y, n_ = d['yes'][0], d['no'][0]
        ctx.case()
        ctx.nt(f'{year}|{fname}|{stem}|yes-no')
        case = {'year': year, 'form': fname, 'target': stem}
        if y.field_name != n_.field_name:
            ctx.violation(f'{year}:{fname.split(":")[0]}:{stem}:yes-no-pair', f'{year} {fname}: the boxes {y.pdf_field_name} / {n_.pdf_field_name} answer one question but are driven by '
                          f'different lines ({y.field_name} / {n_.field_name})', case)
            continue
        name = y.field_name if '.' in y.field_name else f'{fname}.{y.field_name}'
        line = cat.lines.get(name)
        if line is None:
            continue
        for val in (True, False):
            on = [m.pdf_field_name for m in (y, n_) if m.value(val, line) != 'Off']
            if len(on) != 1 or (val and on != [y.pdf_field_name]) or (not val and on != [n_.pdf_field_name]):
                ctx.violation(f'{year}:{fname.split(":")[0]}:{stem}:yes-no-pair', f'{year} {fname}: with {y.field_name} = {val} the boxes on are {on}', case)


def run(ctx):
    for year in catalog.YEARS:
        cat = catalog.get(year)
        for fname, form in sorted(cat.forms.items()):
            if ':' in fname and fname.split(':')[1] not in ('0', 'you', 'spouse'):
                continue
            check_form(ctx, year, cat, fname, form)
            check_status_groups(ctx, year, cat, fname, form)
            check_yes_no_pairs(ctx, year, cat, fname, form)
    ctx.exhaustive = True
    p = catalog.get(2023).forms['1040'].pdf_file()
    xf = pdf.xfa_fields(p)
    k = 'topmostSubform[0].Page1[0].Line4a-11_ReadOrder[0].f1_53[0]'
    ctx.sample({'year': 2023, 'form': '1040', 'target': k, 'mapped_line': '9', 'template_text': xf.get(k, {}).get('speak')})
    ctx.sample({'year': 2023, 'form': '1040', 'group': 'c1_3[0..4]', 'driving_line': 'filing_status', 'values_enumerated': 6})


def replay(ctx, case):
    cat = catalog.get(case['year'])
    check_form(ctx, case['year'], cat, case['form'], cat.forms[case['form']])
    check_status_groups(ctx, case['year'], cat, case['form'], cat.forms[case['form']])
    check_yes_no_pairs(ctx, case['year'], cat, case['form'], cat.forms[case['form']])
