"""C19 — the fill step transmits values faithfully and files exactly the right forms.

Solved real returns (all years) whose text inputs are drawn from adversarial
printable ASCII go through `habutax solve --solution` and `habutax fill-pdfs`
with the stand-in pdftk. (1) every captured FDF is parsed by an independent
PDF-string reader (hx/pdf.py) and must decode to exactly the mapped texts;
(2) the set and order of fill_form/cat invocations must equal the independent
filing rule (data/filing_rules.json); (3) over-long / out-of-list values must
stop the fill with the documented error and without a `cat`."""
import json
import os

from hypothesis import strategies as st

import habutax.forms as hforms
import habutax.form as hform
import habutax.pdf_fields as hpfields

from hx import cli, hyp, pdf, scenario, solve

PROPERTY = 'C19'
LEVEL = 'exploration'
RULE = ('solved 2021-2023 returns (answer-on-demand) whose string inputs are replaced by adversarial printable-ASCII texts (balanced and '
        'unbalanced parentheses, backslashes, quotes, %, long) are filled through the real fill-pdfs path against a stand-in pdftk; '
        'oracle: independent FDF decoder + mapped texts, filing-rule table, limit table. Non-trivial = a fill whose texts contain a '
        'PDF metacharacter, or that files at least 3 forms, or that carries an injected limit violation; distinct = (scenario, texts)'
        ' Ties: itemized total equal to the standard deduction to the dollar (federal and N.C.), with plain texts; hyphenated over-long texts.'
        ' Texts of several hundred characters dense with PDF string syntax; attachment sequence numbers of every form class against the filing-rule table (exhaustive).')
ASSUMPTIONS = ['mapped text = PDFField.value(typed value read back from the solution) - the mapping is C18\'s subject, the transmission C19\'s',
               'data/filing_rules.json transcribes the IRS attachment sequence numbers and the NC assembly order',
               'printable ASCII only (the property\'s stated domain)']

HERE = os.path.dirname(os.path.dirname(os.path.abspath(__file__)))
with open(os.path.join(HERE, 'data', 'filing_rules.json')) as _f:
    RULES = json.load(_f)

META = ['(', ')', '\\', ' #12', ' ;b', '((', '))', ')(', '\\(', '\\)', '\\\\', '"', "'", '%', '<<', '>>', '/V', '>> << /T (x) /V (y']
WORDS = ['Smith', 'Jr', 'Ann-Marie', 'O', 'Neil', '12', 'Main St', 'Apt', 'Acme', 'LLC', 'a', 'x']


def adversarial_text(draw, maxlen=40):
    n = draw(st.integers(1, 5))
    parts = []
    for _ in range(n):
        parts.append(draw(st.sampled_from(WORDS)) if draw(st.integers(0, 2)) else draw(st.sampled_from(META)))
    s = ' '.join(parts) if draw(st.booleans()) else ''.join(parts)
    if draw(st.integers(0, 9)) == 0:
        s = s + ' ' + 'long' * draw(st.integers(5, 30))
    return s.strip()[:200] or 'x'


def read_calls(cap):
    calls = []
    for fn in sorted(os.listdir(cap)):
        if fn.startswith('call_'):
            with open(os.path.join(cap, fn)) as f:
                argv = f.read().split('\n')[:-1]
            n = fn[5:9]
            fdf = os.path.join(cap, f'fdf_{n}.fdf')
            calls.append({'argv': argv, 'fdf': fdf if os.path.exists(fdf) else None})
    return calls


def decode_fdf(path):
    """independent decode: {field name: value} or raises"""
    with open(path, 'rb') as f:
        data = f.read()
    i = data.index(b'1 0 obj') + len(b'1 0 obj')
    obj = pdf.Parser(data, i).parse()
    fields = obj['FDF']['Fields']
    out = {}
    rest = pdf.Parser(data, 0)
    for fld in fields:
        t = fld['T']
        v = fld['V']
        if not isinstance(t, bytes) or not isinstance(v, bytes):
            raise ValueError(f'/T or /V is not a string: {fld!r}')
        if set(fld) != {'T', 'V'}:
            raise ValueError(f'unexpected keys in field dictionary: {sorted(fld)}')
        name = t.decode('latin-1')
        if name in out:
            raise ValueError(f'field {name} appears twice')
        out[name] = v.decode('latin-1')
    return out


def expected_forms(sol):
    """independent filing rule -> ordered list of (jurisdiction, seq, full form name)"""
    out = []
    for sec in sol.sections():
        if sec == 'habutax':
            continue
        base = sec.split(':')[0]
        if base in RULES['never']:
            continue
        filed = False
        if base in RULES['always_when_present']:
            filed = True
        elif base in RULES['conditional']:
            c = RULES['conditional'][base]
            lsec, lkey = c['line'].split('.', 1)
            filed = sol.has_option(lsec, lkey) and sol.get(lsec, lkey).strip() == c['equals']
        else:
            raise KeyError(f'form {base} is not in data/filing_rules.json')
        if filed:
            j = 'US' if base in RULES['order']['US'] else 'NC'
            out.append((RULES['jurisdiction_order'].index(j), RULES['order'][j][base], sec))
    return sorted(out)


def mapped_texts(year, sol, full_form):
    """{pdf field name: text} for one filed form, computed from the solution file; raises the limit errors"""
    classes = {c.form_name: c for c in hforms.available_forms[year]}
    base, inst = hform.name_and_instance(full_form)
    form = classes[base](instance=inst)
    fields = {}
    for sec in sol.sections():
        if sec == 'habutax':
            continue
        b2, i2 = hform.name_and_instance(sec)
        f2 = classes[b2](instance=i2)
        for fl in f2.fields():
            fields[fl.name()] = fl
    out = {}
    for m in form.pdf_fields():
        name = m.field_name if '.' in m.field_name else f'{full_form}.{m.field_name}'
        sec, key = name.split('.', 1)
        if sol.has_option(sec, key):
            val = fields[name].from_string(sol.get(sec, key))
            if isinstance(m, hpfields.ButtonPDFField):
                text = m.value(val, fields[name])
            else:
                # the unlimited text; the limit checks below are the harness' own
                text = hpfields.PDFField.value(m, val, fields[name])
                if isinstance(m, hpfields.TextPDFField):
                    tinfo = pdf.template_fields(form.pdf_file()).get(m.pdf_field_name, {})
                    limit = tinfo.get('maxlen') or m.max_length
                    if limit is not None and len(text) > limit:
                        raise hpfields.PDFValueTooLong(m.pdf_field_name, m.field_name, limit)
                if isinstance(m, hpfields.ChoicePDFField):
                    tinfo = pdf.template_fields(form.pdf_file()).get(m.pdf_field_name, {})
                    choices = tinfo.get('opt') or m._choices
                    if text not in choices:
                        raise hpfields.PDFInvalidChoiceValue(m.pdf_field_name, m.field_name, text)
            out[m.pdf_field_name] = text
        else:
            out[m.pdf_field_name] = ''
    return out


def check_fill(ctx, sc, case, inject=None):
    year, forms = sc['year'], sc['forms']
    with cli.scratch() as d:
        text = solve.config_to_text(solve.config_from_dict(sc['inputs']))
        o = cli.solve(d, year, forms, input_text=text, solution=True)
        if o.exc is not None or 'Successfully solved!' not in o.stdout:
            ctx.count('not_solved_skipped')
            return None
        sol = solve.solution_from_text(o.solution_text)
        o2 = cli.fill_pdfs(d, o.solution_path)
        calls = read_calls(o2.capture_dir)
        fills = [c for c in calls if 'fill_form' in c['argv']]
        cats = [c for c in calls if 'cat' in c['argv']]
        want = expected_forms(sol)
        # expected texts / expected limit errors
        exp_texts = {}
        limit_error = None
        for _, _, full in want:
            try:
                exp_texts[full] = mapped_texts(year, sol, full)
            except (hpfields.PDFValueTooLong, hpfields.PDFInvalidChoiceValue) as e:
                limit_error = e
                break
        labels = set()
        if limit_error is not None:
            labels.add('limit_violation')
            if not isinstance(o2.exc, type(limit_error)):
                ctx.violation('limit:not-raised', f'a mapped value violates its box limit ({limit_error}) but fill ended with exc={o2.exc!r}', case)
            if cats:
                ctx.violation('limit:cat-after-error', 'the fill raised a limit error but still produced the combined output', case)
            return labels
        if isinstance(o2.exc, (hpfields.PDFValueTooLong, hpfields.PDFInvalidChoiceValue)):
            ctx.violation('limit:spurious', f'fill raised {o2.exc!r} although no mapped text violates a limit', case)
            return labels
        if o2.exc is not None:
            ctx.violation(f'fill-raises:{type(o2.exc).__name__}', f'fill-pdfs raised {o2.exc!r}', case)
            return labels
        # (2) which forms, how often, what order
        got_forms = []
        for c in fills:
            out_pdf = c['argv'][c['argv'].index('output') + 1]
            got_forms.append(os.path.basename(out_pdf)[:-4])
        want_names = [w[2] for w in want]
        if sorted(got_forms) != sorted(want_names):
            ctx.violation('forms:set', f'{year}: forms filled {sorted(got_forms)} but the filing rule says {sorted(want_names)}', case)
            return labels
        if len(cats) != 1:
            ctx.violation('forms:cat-count', f'{len(cats)} cat invocations', case)
            return labels
        cat_argv = cats[0]['argv']
        cat_order = [os.path.basename(a)[:-4] for a in cat_argv[:cat_argv.index('cat')]]
        key = {w[2]: (w[0], w[1]) for w in want}
        if sorted(cat_order) != sorted(want_names) or [key[n] for n in cat_order] != sorted(key[n] for n in cat_order):
            ctx.violation('forms:order', f'{year}: combined in order {cat_order}; required order by (jurisdiction, attachment sequence) is {want_names}', case)
        for c in fills:
            tmpl = c['argv'][0]
            full = os.path.basename(c['argv'][c['argv'].index('output') + 1])[:-4]
            classes = {cl.form_name: cl for cl in hforms.available_forms[year]}
            f = classes[full.split(':')[0]](instance=full.split(':')[1] if ':' in full else None)
            if os.path.abspath(tmpl) != os.path.abspath(f.pdf_file()):
                ctx.violation('forms:template', f'{full} was filled into {tmpl}, its template is {f.pdf_file()}', case)
            if ('flatten' in c['argv']) is not True:
                ctx.violation('forms:flatten', f'{full}: flatten flag missing', case)
            # (1) transmission
            try:
                got = decode_fdf(c['fdf'])
            except Exception as e:
                ctx.violation('fdf:undecodable', f'{year} {full}: the FDF does not parse under the PDF string syntax: {e!r}', case)
                return labels
            exp = exp_texts[full]
            if got != exp:
                bad = [k for k in set(got) | set(exp) if got.get(k) != exp.get(k)]
                ctx.violation('fdf:differs', f'{year} {full}: field {bad[0]} decodes to {got.get(bad[0])!r}, mapped text is {exp.get(bad[0])!r} ({len(bad)} fields differ)', case)
                return labels
            ctx.count('fdf_fields_compared', len(exp))
            if any(ch in v for v in exp.values() for ch in '()\\'):
                labels.add('pdf_metachar')
        if len(want) >= 3:
            labels.add('three_forms')
        ctx.count('forms_filed', len(want))
        for w in want:
            ctx.count('filed:' + w[2].split(':')[0])
        return labels


def check_injection(ctx, sc, draw, case, forced=None, forced_value=None):
    """edit the written solution so that one length-limited box gets a value one
    character too long (or a choice box a value outside its list): the fill must
    stop with the documented error and never reach `cat`"""
    import habutax.fields as hf
    year, forms = sc['year'], sc['forms']
    with cli.scratch() as d:
        text = solve.config_to_text(solve.config_from_dict(sc['inputs']))
        o = cli.solve(d, year, forms, input_text=text, solution=True)
        if o.exc is not None or 'Successfully solved!' not in o.stdout:
            return
        sol = solve.solution_from_text(o.solution_text)
        want = expected_forms(sol)
        classes = {c.form_name: c for c in hforms.available_forms[year]}
        cands = []
        for _, _, full in want:
            base, inst = hform.name_and_instance(full)
            f = classes[base](instance=inst)
            lines = {l.name(): l for l in f.fields()}
            tf = pdf.template_fields(f.pdf_file())
            for m in f.pdf_fields():
                name = m.field_name if '.' in m.field_name else f'{full}.{m.field_name}'
                line = lines.get(name)
                if line is None or not isinstance(line, hf.StringField) or m._value_fn is not None:
                    continue
                sec, key = name.split('.', 1)
                if not sol.has_option(sec, key):
                    continue
                if isinstance(m, hpfields.TextPDFField):
                    limit = tf.get(m.pdf_field_name, {}).get('maxlen') or m.max_length
                    if limit:
                        cands.append((name, ('overlong', limit), hpfields.PDFValueTooLong, m.pdf_field_name))
                elif isinstance(m, hpfields.ChoicePDFField):
                    cands.append((name, 'ZZ', hpfields.PDFInvalidChoiceValue, m.pdf_field_name))
        if not cands:
            ctx.count('injection:no_limited_text_box')
            return
        if forced is not None:
            pick = [c for c in cands if c[0] == forced]
            if not pick:
                return
            name, value, exc_type, target = pick[0]
        else:
            choice_c = [c for c in cands if c[2] is hpfields.PDFInvalidChoiceValue]
            pool = choice_c if (choice_c and draw(st.integers(0, 2)) == 0) else cands
            name, value, exc_type, target = draw(st.sampled_from(pool))
        if forced_value is not None:
            value = forced_value
        if isinstance(value, tuple):
            # one character too long, in several spellings: plain, with a hyphen / space / digit group inside (a length
            # test that ignores some characters lets these through), or two too long
            limit = value[1]
            kpos = draw(st.integers(0, limit))
            value = draw(st.sampled_from(['X' * (limit + 1), 'X' * kpos + '-' + 'X' * (limit - kpos), 'X' * kpos + ' ' + 'X' * (limit - kpos),
                                          '9' * kpos + '-' + '9' * (limit - kpos), 'X' * kpos + '.' + 'X' * (limit - kpos), 'Xy' * limit]))
            if value != value.strip() or len(value) <= limit:
                value = 'X' * (limit + 1)
        sec, key = name.split('.', 1)
        sol.set(sec, key, value)
        path = os.path.join(d, 'solution_injected.ini')
        with open(path, 'w') as f:
            sol.write(f)
        o2 = cli.fill_pdfs(d, path)
        calls = read_calls(o2.capture_dir)
    ctx.case()
    ctx.count('injection:' + exc_type.__name__)
    ctx.note('limited_boxes_injected', f'{year}:{target}')
    case = dict(case, injected={'line': name, 'value': value})
    if not isinstance(o2.exc, exc_type):
        ctx.violation(f'limit:injected-not-raised:{exc_type.__name__}', f'{year}: {name} set to {value[:12]!r}... (limit of {target} exceeded) but fill ended with {o2.exc!r}', case)
    elif any('cat' in c['argv'] for c in calls):
        ctx.violation('limit:cat-after-error', f'{year}: fill raised {exc_type.__name__} for {target} but still produced the combined output', case)
    else:
        ctx.nt(f'inj|{year}|{target}')


def shard(ctx, k, payload):
    n, seed = payload

    def body(data):
        p = data.draw(scenario.personas())
        tie = data.draw(st.sampled_from([None, None, None, 'nc', 'fed']))
        if tie == 'nc':
            p.update(forms=['1040', 'nc_d-400'], nc_itemize=True, n_1098=max(1, p['n_1098']))
            p = scenario.constrain(p)
        elif tie == 'fed':
            p.update(itemize=True, n_1098=max(1, p['n_1098']))
        sc, r0 = scenario.build(p, data.draw)
        if r0.exc is not None or not r0.verdict:
            ctx.count('base_not_solved')
            return
        inputs = dict(sc['inputs'])
        mode = data.draw(st.sampled_from(['adversarial', 'adversarial', 'adversarial', 'plain', 'overlong']))
        if tie is not None:
            mode = 'plain'      # a box-limit error would end the fill before the set of filed forms can be seen
        str_keys = []
        for key in sorted(inputs):
            inp = r0.solver._input_map.get(key)
            if inp is not None and type(inp).__name__ == 'StringInput':
                str_keys.append(key)
        if mode != 'plain':
            for key in str_keys:
                if data.draw(st.integers(0, 2)) == 0:
                    t = adversarial_text(data.draw)
                    if mode == 'adversarial' and data.draw(st.integers(0, 7)) == 0:
                        # several hundred characters dense with PDF string syntax (a box without a length limit takes them)
                        n_ = data.draw(st.sampled_from([150, 199, 200, 201, 260, 399, 400, 401, 450]))
                        t = ''.join(data.draw(st.sampled_from(['(', ')', '\\', 'a', 'b ', '((', '))', '\\(', 'x' * 7])) for _ in range(n_))[:n_]
                    if mode == 'overlong' and data.draw(st.integers(0, 3)) == 0:
                        t = t + data.draw(st.sampled_from(['X' * 10, 'X' * 30, 'X' * 60, '-Xy' * 4, 'Smith-Jones-Featherstonehaugh', '-' * 15, '27511-12345']))
                    inputs[key] = t.replace('%', '%%')
        if '1098:0.box_1' in inputs and tie is not None:
            # tie: move the mortgage interest so that the itemized total equals the standard deduction to the dollar
            # (N.C. or federal); which forms are filed must still follow the line the return claims
            which = ('nc_d-400_sa.10', 'nc_d-400_sa.nc_standard_deduction') if tie == 'nc' else ('1040_sa.17', None)
            cur, rr = dict(inputs), r0
            for _ in range(3):
                vals_ = rr.values
                item = vals_.get(which[0])
                std = vals_.get(which[1]) if which[1] else None
                if which[1] is None and '1040.12' in vals_ and not vals_.get('1040.itemizing'):
                    std = vals_.get('1040.12')
                if not isinstance(item, (int, float)) or not isinstance(std, (int, float)) or item == std:
                    break
                try:
                    nb = round(float(cur['1098:0.box_1'].strip() or 0) + (float(std) - float(item)), 2)
                except ValueError:
                    break
                if nb < 0:
                    break
                cur['1098:0.box_1'] = f'{nb:.2f}'
                rr = scenario.resolve({'year': sc['year'], 'forms': sc['forms'], 'inputs': cur}, want_solution=False)
                if rr.exc is not None or not rr.verdict:
                    break
            if rr.exc is None and rr.verdict and isinstance(rr.values.get(which[0]), (int, float)):
                std_ = rr.values.get(which[1]) if which[1] else rr.values.get('1040.12')
                if std_ == rr.values.get(which[0]):
                    ctx.count('tie:' + which[0])
                    inputs = cur
        sc2 = {'year': sc['year'], 'forms': sc['forms'], 'inputs': inputs}
        ctx.case()
        labels = check_fill(ctx, sc2, {'scenario': sc2})
        if data.draw(st.integers(0, 1)) == 0:
            check_injection(ctx, {'year': sc['year'], 'forms': sc['forms'], 'inputs': sc['inputs']}, data.draw, {'scenario': scenario.slim(sc)})
        if labels is None:
            return
        ctx.count('mode:' + mode)
        for l in labels:
            ctx.count('label:' + l)
        if labels:
            ctx.nt({'i': inputs, 'y': sc['year']})
        if len(ctx.samples) < 4 and 'pdf_metachar' in labels:
            ex = [v for kk, v in inputs.items() if kk in str_keys and any(c in v for c in '()\\')][:3]
            ctx.sample({'year': sc['year'], 'forms': sc['forms'], 'adversarial_inputs': ex, 'labels': sorted(labels)})
    hyp.run_data(body, n, seed)


def check_sequence_numbers(ctx):
    """every form class with a template: its attachment sequence number and jurisdiction agree with the independent
    filing rule table (exhaustive over years x forms)"""
    for year in (2021, 2022, 2023):
        for cl in hforms.available_forms[year]:
            base = cl.form_name
            for j in ('US', 'NC'):
                if base in RULES['order'][j]:
                    ctx.case()
                    got = getattr(cl, 'sequence_no', None)
                    ctx.nt(f'seq|{year}|{base}')
                    if got != RULES['order'][j][base]:
                        ctx.violation(f'forms:sequence-number:{year}:{base}', f'{year} {base}: class declares attachment sequence number {got!r}, the filing rule table says {RULES["order"][j][base]}',
                                      {'static': 'sequence', 'year': year, 'form': base})


def run(ctx):
    quick = ctx.tier == 'quick'
    check_sequence_numbers(ctx)
    n = 240 if quick else 5000
    shards = 8 if quick else 16
    hyp.pmap(ctx, shard, [(max(1, n // shards), ctx.seed * 1000 + k) for k in range(shards)])


def replay(ctx, case):
    if case.get('static') == 'sequence':
        check_sequence_numbers(ctx)
        return
    if 'injected' in case:
        base = {k_: v_ for k_, v_ in case.items() if k_ != 'injected'}
        check_injection(ctx, case['scenario'], None, base, forced=case['injected']['line'], forced_value=case['injected'].get('value'))
        return
    check_fill(ctx, case['scenario'], case)
