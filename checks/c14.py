"""C14 — a written solution reads back to exactly the values that were solved.

(a) typed values per line class (floats of every magnitude/sign x places, ints
    incl. huge, bools, every member of shipped enumerations and None, text
    built at INI level) -> ValueStore.to_config -> write -> read_file ->
    PDFFiller's re-typing -> compare;
(b) real solved returns through the command line: `solve --solution F` then
    `fill-pdfs F` (stand-in pdftk): the filler's value store equals the
    solver's stored values, F carries the year solved, and the filler was built
    from that year's catalogue."""
import configparser
import io
import math
import os

from hypothesis import strategies as st

import habutax
import habutax.enum as henum
import habutax.fields as hf
import habutax.form as hform
import habutax.forms as hforms
import habutax.pdf_filler as hpf
import habutax.values as hvalues

from hx import cli, hyp, scenario, solve

PROPERTY = 'C14'
LEVEL = 'exploration'
RULE = ('(a) values: floats (sign, zero, tiny, huge, half-way, nan/inf) x places {0,1,2,5}, ints up to 10^400, bools, every member of the '
        'shipped enumerations + None, and text obtained by parsing generated INI input (multi-word, continuation lines, %, #, ;, =, :, [, '
        'non-ASCII) - stored in a ValueStore, written with to_config()/write(), read back and re-typed by PDFFiller; (b) real solved '
        'returns through `habutax solve --solution` and `habutax fill-pdfs`. Oracle: round trip (numbers/bools exact, enum by member, '
        'blank as blank, text equal after strip). Non-trivial = a value whose text form differs from repr() or text containing an INI '
        'metacharacter/newline; distinct = (type, places, text form)'
        ' Generated texts include non-NFKC Unicode (combining accents, ligatures, fractions, symbols).')
ASSUMPTIONS = ['text values are those an input file or a prompt can deliver (parsed by configparser, then stripped)']

ENUMS = [henum.filing_status, henum.filing_status_2021, henum.us_states, henum.taxpayer_or_spouse, henum.taxpayer_spouse_or_both]


class RTForm(hform.Form):
    """one line of every kind; used only as the 'same year's line definitions'"""
    form_name = 'rt'
    tax_year = 2099
    description = 'rt'
    long_description = 'round trip form'
    jurisdiction = hform.Jurisdiction.US

    def __init__(self, **kwargs):
        none = lambda s, i, v: None
        fields = [hf.StringField('text', none), hf.BooleanField('flag', none), hf.IntegerField('count', none)]
        for p in (0, 1, 2, 5):
            fields.append(hf.FloatField(f'money{p}', none, places=p))
        for k, e in enumerate(ENUMS):
            fields.append(hf.EnumField(f'enum{k}', e, none))
        super().__init__(__class__, [], fields, [], **kwargs)

    def needs_filing(self, values):
        return False


INI_PIECES = ['Mu\u0308ller', '12\u00bd Elm St', 'She\ufb03eld', 'Acme\u2122', '\u2116 7', 'x\u00a0y', '\uff11\uff12', 'a', 'Jane Q. Public', '12 Main St', 'x = y', 'k: v', '[sec]', '#hash', ';semi', 'a # b', 'a ; b', '100%', '50%% off', '%(x)s', '%',
              '%%', 'é', '日本', '🙂', "O'Neil", '"q"', '(paren', 'back\\slash', '=', ':', '  spaced  out  ', 'tab\tinside', '']


def ini_text_strategy():
    """raw right-hand side of `key = ...` in an input file, possibly with continuation lines"""
    piece = st.sampled_from(INI_PIECES)
    line = st.builds(lambda a, b: (a + ' ' + b).strip() if b else a, piece, st.one_of(st.just(''), piece))
    multi = st.builds(lambda a, rest: a + ''.join('\n    ' + r for r in rest), line, st.lists(line, max_size=2))
    return st.one_of(line, line, multi)


def parse_ini_value(raw):
    """what an input file delivers for `x = raw` -> stripped text, or None if configparser rejects it"""
    cp = configparser.ConfigParser()
    try:
        cp.read_file(io.StringIO('[s]\nx = ' + raw + '\n'))
        return cp.get('s', 'x').strip()
    except Exception:
        return None


def value_strategy():
    floats = st.one_of(st.sampled_from([0.0, -0.0, 0.005, 1.005, -2.675, 1e-7, 123456789.125, 1e15, 1e22, 1e308, -1e308, 5e-324,
                                        float('nan'), float('inf'), float('-inf'), 0.1 + 0.2]),
                       st.floats(allow_nan=False, allow_infinity=False),
                       st.integers(-10 ** 12, 10 ** 12).map(lambda c: c / 100.0))
    f = st.tuples(st.just('float'), st.sampled_from([0, 1, 2, 5]), floats)
    i = st.tuples(st.just('int'), st.just(0), st.one_of(st.integers(-10 ** 6, 10 ** 6), st.integers(-10 ** 400, 10 ** 400)))
    b = st.tuples(st.just('bool'), st.just(0), st.booleans())
    e = st.integers(0, len(ENUMS) - 1).flatmap(
        lambda k: st.tuples(st.just('enum'), st.just(k), st.sampled_from(list(ENUMS[k]) + [None])))
    t = st.tuples(st.just('text'), st.just(0), ini_text_strategy())
    return st.one_of(f, f, i, b, e, t, t)


def same(a, b, text=False):
    import enum as _enum
    if text:
        return isinstance(a, str) and isinstance(b, str) and a.strip() == b.strip()
    if isinstance(a, _enum.Enum) or isinstance(b, _enum.Enum):
        # "enumerations by member": forms such as W-2 create their enumeration per
        # instance, so identity of the class is not part of the contract
        return (isinstance(a, _enum.Enum) and isinstance(b, _enum.Enum) and a.name == b.name
                and a.value == b.value and type(a).__name__ == type(b).__name__)
    if type(a) is not type(b):
        return False
    if isinstance(a, float) and a != a:
        return b != b
    return a == b


def roundtrip(values_by_line):
    """{line: typed value} -> ({line: value read back by PDFFiller}, error)"""
    form = RTForm()
    field_map = {f.name(): f for f in form.fields()}
    vs = hvalues.ValueStore()
    for k, v in values_by_line.items():
        vs[f'rt.{k}'] = v
    try:
        cfg = vs.to_config(field_map)
    except Exception as e:
        return None, ('to_config', e)
    cfg['habutax'] = {'tax_year': 2099, 'version': habutax.__version__}
    buf = io.StringIO()
    try:
        cfg.write(buf)
    except Exception as e:
        return None, ('write', e)
    # read back exactly as habutax.fill_pdfs does
    orig = hforms.available_forms.get(2099)
    hforms.available_forms[2099] = [RTForm]
    captured = []
    OrigFiller = hpf.PDFFiller

    class Capture(OrigFiller):
        def __init__(self, *a, **kw):
            super().__init__(*a, **kw)
            captured.append(self)
    hpf.PDFFiller = Capture
    try:
        with cli.scratch() as d:
            path = os.path.join(d, 'solution.ini')
            with open(path, 'w') as f:
                f.write(buf.getvalue())
            o = cli.fill_pdfs(d, path)
    finally:
        hpf.PDFFiller = OrigFiller
        if orig is None:
            del hforms.available_forms[2099]
        else:
            hforms.available_forms[2099] = orig
    if o.exc is not None:
        return None, ('fill_pdfs', o.exc)
    p = captured[0]
    return {k.split('.', 1)[1]: v for k, v in p._values.values.items()}, None


def check_value(ctx, kind, sub, v):
    if kind == 'float':
        line = f'money{sub}'
        stored = round(v, sub)
    elif kind == 'int':
        line, stored = 'count', v
    elif kind == 'bool':
        line, stored = 'flag', v
    elif kind == 'enum':
        line, stored = f'enum{sub}', v
    else:
        stored = parse_ini_value(v)
        if stored is None:
            ctx.count('ini_text_rejected_by_configparser')
            return
        line = 'text'
    ctx.case()
    case = {'route': 'value', 'kind': kind, 'sub': sub, 'value': repr(v), 'stored': repr(stored)}
    back, err = roundtrip({line: stored})
    form = RTForm()
    fld = {f.base_name(): f for f in form.fields()}[line]
    try:
        text = fld.to_string(stored)
    except Exception as e:
        ctx.violation(f'value:{kind}:to_string-raises:{type(e).__name__}', f'{kind} value {stored!r} (a value the line can hold) cannot be written: to_string raises {e!r}', case)
        return
    if text != repr(stored) or (kind == 'text' and any(c in stored for c in '%#;=:[\n')):
        ctx.nt(f'{kind}|{sub}|{text}')
    ctx.count('kind:' + kind)
    if kind == 'text':
        for c in '%#;=:[\n':
            if c in stored:
                ctx.count('text_with:' + repr(c))
    if err is not None:
        stage, e = err
        ctx.violation(f'value:{kind}:{stage}-raises:{type(e).__name__}', f'{kind} value {stored!r}: {stage} raises {e!r}', case)
        return
    if line not in back:
        ctx.violation(f'value:{kind}:lost', f'{kind} value {stored!r} is absent after the round trip', case)
    elif not same(back[line], stored, text=(kind == 'text')):
        ctx.violation(f'value:{kind}:differs', f'{kind} value {stored!r} (written as {text!r}) reads back as {back[line]!r}', case)
    if len(ctx.samples) < 6 and kind in ('text', 'float') and text != repr(stored):
        ctx.sample({'kind': kind, 'places_or_enum': sub, 'stored': repr(stored), 'written_as': text, 'read_back': repr(back.get(line))})


def shard_values(ctx, k, payload):
    n, seed = payload

    def body(args):
        check_value(ctx, *args)
    hyp.run_given(value_strategy(), body, n, seed)


# ---------------------------------------------------------------------------
def check_real(ctx, sc, case):
    """CLI: solve --solution F ; fill-pdfs F ; compare the filler's store with the solver's"""
    year, forms = sc['year'], sc['forms']
    r = scenario.resolve(sc)
    if r.exc is not None or not r.verdict:
        return False
    captured = []
    OrigFiller = hpf.PDFFiller

    class Capture(OrigFiller):
        def __init__(self, solution, available_forms, *a, **kw):
            super().__init__(solution, available_forms, *a, **kw)
            self.hx_available = available_forms
            captured.append(self)
    with cli.scratch() as d:
        text = solve.config_to_text(solve.config_from_dict(sc['inputs']))
        o = cli.solve(d, year, forms, input_text=text, solution=True)
        if o.exc is not None:
            ctx.violation(f'real:solve-cli-raises:{type(o.exc).__name__}', f'habutax solve --solution raised {o.exc!r} for a return that solves', case)
            return True
        sol = configparser.ConfigParser(interpolation=None)
        sol.read_string(o.solution_text)
        if not sol.has_option('habutax', 'tax_year') or sol.get('habutax', 'tax_year').strip() != str(year):
            ctx.violation('real:year-not-carried', f'solution file says tax_year={sol.get("habutax", "tax_year", fallback=None)!r}, solved for {year}', case)
        hpf.PDFFiller = Capture
        try:
            o2 = cli.fill_pdfs(d, o.solution_path)
        finally:
            hpf.PDFFiller = OrigFiller
    import habutax.pdf_fields as hpfields
    if isinstance(o2.exc, (hpfields.PDFValueTooLong, hpfields.PDFInvalidChoiceValue)):
        # the fill step's own limit checks (C19); the solution was read before them
        ctx.count('real:fill_stopped_by_limit_check(C19 domain)')
    elif o2.exc is not None:
        ctx.violation(f'real:fill-raises:{type(o2.exc).__name__}', f'fill-pdfs on the written solution raised {o2.exc!r}', case)
        return True
    p = captured[0]
    if list(p.hx_available) != list(hforms.available_forms[year]):
        ctx.violation('real:wrong-year-catalogue', f'the filler was built from a catalogue other than {year}', case)
    got = p._values.values
    if set(got) != set(r.values):
        ctx.violation('real:keys-differ', f'filler holds {sorted(set(got) ^ set(r.values))[:6]} differently from the solver', case)
        return True
    for name, v in r.values.items():
        if not same(got[name], v, text=isinstance(v, str)):
            base = name.split('.')[0].split(':')[0] + '.' + name.split('.')[1]
            ctx.violation(f'real:differs:{base}', f'{name}: solved {v!r}, filler read {got[name]!r}', case)
            break
    ctx.count('real_values_compared', len(r.values))
    return True


def shard_real(ctx, k, payload):
    n, seed = payload

    def body(data):
        p = data.draw(scenario.personas())
        sc, r0 = scenario.build(p, data.draw)
        if r0.exc is not None or not r0.verdict:
            ctx.count('real:not_solved_skipped')
            return
        ctx.case()
        if check_real(ctx, sc, {'route': 'real', 'scenario': scenario.slim(sc)}):
            ctx.nt({'y': sc['year'], 'i': sc['inputs']})
            ctx.count('real:roundtripped')
    hyp.run_data(body, n, seed)


def run(ctx):
    quick = ctx.tier == 'quick'
    n = 5000 if quick else 300000
    shards = 8 if quick else 16
    hyp.pmap(ctx, shard_values, [(n // shards, ctx.seed * 1000 + k) for k in range(shards)])
    nr = 100 if quick else 3000
    hyp.pmap(ctx, shard_real, [(max(1, nr // 5), ctx.seed * 1000 + 600 + k) for k in range(5)])


def replay(ctx, case):
    if case['route'] == 'real':
        check_real(ctx, case['scenario'], case)
        return
    env = {'nan': float('nan'), 'inf': float('inf'), '__builtins__': {}}
    kind, sub = case['kind'], case['sub']
    if kind == 'enum':
        v = None if case['value'] == 'None' else [m for m in ENUMS[sub] if repr(m) == case['value']][0]
    else:
        v = eval(case['value'], env)
    check_value(ctx, kind, sub, v)
