"""C10 — every name a form definition can refer to resolves.

Per-line fuzzing: each line of each form instance of each year is evaluated in
isolation against catalogue-typed mock stores (hx/mock.py). A read that does
not resolve in the same year's catalogue, or an exception that is a reference
failure (AttributeError, NameError, RecursionError, AssertionError from
form/solver code, KeyError from a lookup), is a violation. Data-dependent
exceptions are counted, not flagged."""
import configparser
import os
import traceback

from hypothesis import strategies as st

import habutax.fields as hf
import habutax.form as hform
import habutax.inputs as hinputs
import habutax.solver as hsolver

from hx import catalog, hyp, mock

PROPERTY = 'C10'
LEVEL = 'exploration'
RULE = ('per-line fuzzing: every line of every form instance of every year is evaluated on mock stores whose '
        'reads return Hypothesis draws of the catalogue-declared type (both booleans, every enum member, counts '
        '0-15, amounts around the owning form\'s thresholds); a case is non-trivial when the evaluation performed '
        'at least one read; distinct = distinct (year, line, referenced name) pairs resolved against the catalogue'
        ' Real returns through the real solver: an abort with KeyError / NameError / AttributeError / a missing threshold table is an unresolved name (form references made through the solver only show there).')
ASSUMPTIONS = ['a path is reachable iff some type-correct assignment of the names it reads drives it (mock stores draw independently per name)',
               'forms absent from a year\'s catalogue count as deliberate only if not within edit distance 2 of a catalogued name and the real solver aborts with "Form X is not supported."']

REFERENCE_ERRORS = (AttributeError, NameError, RecursionError, UnboundLocalError, ImportError)


def innermost(tb):
    """innermost frame inside /repo (file:function)"""
    frames = traceback.extract_tb(tb)
    repo = [f for f in frames if '/habutax/' in f.filename]
    f = (repo or frames)[-1]
    return os.path.basename(f.filename), f.name, f.lineno


def eval_line(ctx, cat, line, draw, recorded=None, absent=None):
    """evaluate one line once; returns (outcome, log)"""
    log = []
    form = line.form()
    mi = mock.MockStore('i', cat, form, draw, log, recorded, absent)
    mv = mock.MockStore('v', cat, form, draw, log, recorded, absent)
    name = line.name()
    year = cat.year
    case = lambda: {'year': year, 'line': name, 'reads': {f'{k}:{key}': v for k, key, v in log}}
    try:
        line.value(hform.FormAccessor(mi, form), hform.FormAccessor(mv, form))
        out = 'value'
    except hf.FieldNotImplemented:
        out = 'not_implemented'
    except mock.AbsentForm as e:
        out = 'absent_form:' + e.form_name
    except mock.ReplayMiss:
        out = 'replay_miss'
    except mock.Unresolved as e:
        out = 'unresolved'
        base = name.split('.')[0].split(':')[0] + '.' + name.split('.')[1]
        ctx.violation(f'unresolved:{year}:{base}:{e.store}[{e.key}]',
                      f'{year} line {name} reads {e.store}[{e.key!r}]: {e.why}', case())
    except REFERENCE_ERRORS as e:
        fn, func, ln = innermost(e.__traceback__)
        out = 'reference_error'
        base = name.split('.')[0].split(':')[0] + '.' + name.split('.')[1]
        ctx.violation(f'{type(e).__name__}:{year}:{base}',
                      f'{year} line {name} raises {type(e).__name__}: {str(e)[:120]} (at {fn}:{func}:{ln})', case())
    except AssertionError as e:
        fn, func, ln = innermost(e.__traceback__)
        if 'figure_tax' in fn:
            out = 'observed:figure_tax_assertion(C07 domain)'
        else:
            out = 'reference_error'
            base = name.split('.')[0].split(':')[0] + '.' + name.split('.')[1]
            ctx.violation(f'AssertionError:{year}:{base}',
                          f'{year} line {name} trips an internal assertion: {str(e)[:120]} (at {fn}:{func}:{ln})', case())
    except KeyError as e:
        fn, func, ln = innermost(e.__traceback__)
        out = 'reference_error'
        base = name.split('.')[0].split(':')[0] + '.' + name.split('.')[1]
        ctx.violation(f'KeyError:{year}:{base}',
                      f'{year} line {name} raises KeyError {str(e)[:80]} (at {fn}:{func}:{ln})', case())
    except (TypeError, ZeroDivisionError, ValueError, OverflowError, IndexError) as e:
        out = 'observed:' + type(e).__name__
        ctx.note('data_dependent_exceptions', f'{year} {name.split(":")[0] if ":" in name.split(".")[0] else name}: {type(e).__name__}: {str(e)[:100]}')
    return out, log


def nested_function_lines(path):
    """line numbers inside functions that are defined inside a method (the value
    functions of the forms), excluding their def lines"""
    import ast
    with open(path) as f:
        tree = ast.parse(f.read())
    lines = set()

    def visit(node, depth):
        for ch in ast.iter_child_nodes(node):
            if isinstance(ch, (ast.FunctionDef, ast.AsyncFunctionDef)):
                if depth >= 1:
                    for sub in ch.body:
                        for nn in ast.walk(sub):
                            if hasattr(nn, 'lineno') and isinstance(nn, ast.stmt):
                                lines.add(nn.lineno)
                visit(ch, depth + 1)
            else:
                visit(ch, depth)
    visit(tree, 0)
    return lines


def shard(ctx, k, payload):
    year, names, n, seed = payload
    cov = None
    try:
        import coverage
        cov = coverage.Coverage(data_file=None, branch=False, include=['*/habutax/forms/ty*/*.py'])
        cov.start()
    except Exception:
        cov = None
    try:
        _shard(ctx, k, payload)
    finally:
        if cov is not None:
            cov.stop()
            data = cov.get_data()
            for fn in data.measured_files():
                got = data.lines(fn) or []
                for ln in got:
                    ctx.note('_cov', f'{fn}|{ln}')


def _shard(ctx, k, payload):
    year, names, n, seed = payload
    cat = catalog.get(year)
    absent = set()
    pairs = set()
    for name in names:
        line = cat.lines[name]
        outcomes = set()

        def body(data, line=line, outcomes=outcomes):
            out, log = eval_line(ctx, cat, line, data.draw, absent=absent)
            ctx.case()
            outcomes.add(out.split(':')[0])
            ctx.count('outcome:' + out.split(':')[0])
            for kind, key, _ in log:
                pairs.add((name, kind, key))
            if log and len(ctx.samples) < 2 and len(log) >= 3:
                ctx.sample({'year': year, 'line': line.name(), 'outcome': out,
                            'reads': [f'{kk}[{key}]={v!r}' for kk, key, v in log[:8]]})
        hyp.run_data(body, n, seed + hash_name(name))
        if outcomes == {'value'}:
            ctx.count('lines_only_value')
    for p in pairs:
        ctx.nt(f'{year}|{p[0]}|{p[1]}|{p[2]}')
    for a in absent:
        ctx.note('forms_deliberately_absent', f'{year}:{a}')


def hash_name(name):
    h = 0
    for c in name:
        h = (h * 131 + ord(c)) % 1000003
    return h


def check_absent_forms(ctx):
    """a form referenced but not catalogued must make the real solver abort
    saying it is unsupported"""
    for item in sorted(ctx.lists.get('forms_deliberately_absent', [])):
        year, fname = item.split(':', 1)
        year = int(year)
        s = hsolver.Solver(hinputs.InputStore(configparser.ConfigParser()), catalog.classes(year))
        ctx.case()
        try:
            s._add_form(fname)
            ok = False
            msg = 'no error'
        except NotImplementedError as e:
            ok = f'Form {fname} is not supported' in str(e)
            msg = str(e)
        except Exception as e:
            ok = False
            msg = repr(e)
        if not ok:
            ctx.violation(f'absent-form:{year}:{fname}', f'{year}: form {fname} is referenced, not catalogued, and the solver does not abort with "not supported": {msg}',
                          {'year': year, 'form': fname})


def shard_real(ctx, k, payload):
    """real returns: a solve may stop because a form is not supported or a value is rejected, but never because a form,
    line, input or table that a definition names does not resolve (KeyError / NameError / AttributeError, a missing
    threshold table) - form references made through the solver (`s.form(name)`) only show with a real solver"""
    from hx import scenario
    n, seed = payload

    def body(data):
        fs = data.draw(st.sampled_from([['1040'], ['1040', 'nc_d-400'], ['1040', 'nc_d-400'], ['nc_d-400']]))
        p = data.draw(scenario.personas(forms=fs))
        sc, r = scenario.build(p, data.draw)
        ctx.case()
        ctx.count('real:solves')
        e = r.exc
        if e is None:
            ctx.nt(f'real|{sc["year"]}|{sc["forms"]}|{len(r.values)}')
            return
        bad = isinstance(e, (KeyError, NameError, AttributeError, IndexError)) or (isinstance(e, AssertionError) and 'hreshold' in str(e))
        if bad:
            ctx.violation(f'real:unresolved:{type(e).__name__}:{str(e)[:40]}', f'{sc["year"]} {sc["forms"]}: Solver.solve() raised {e!r} - a name a definition refers to does not resolve',
                          {'real': {'year': sc['year'], 'forms': sc['forms'], 'inputs': sc['inputs']}})
        else:
            ctx.count('real:abort:' + type(e).__name__)
    hyp.run_data(body, n, seed)


def run(ctx):
    hyp.pmap(ctx, shard_real, [((160 if ctx.tier == 'quick' else 4000) // 8, ctx.seed * 1000 + 600 + k) for k in range(8)])
    n = 25 if ctx.tier == 'quick' else 400
    payloads = []
    total_lines = 0
    for year in catalog.YEARS:
        cat = catalog.get(year)
        for fname, err in cat.errors.items():
            ctx.violation(f'instantiate:{year}:{fname}', f'{year}: form {fname} cannot be instantiated: {err!r}', {'year': year, 'form': fname})
        names = sorted(cat.lines)
        total_lines += len(names)
        per = 24
        chunks = [names[k::per] for k in range(per)]
        for c in chunks:
            payloads.append((year, c, n, ctx.seed * 7919))
    hyp.pmap(ctx, shard, payloads)
    check_absent_forms(ctx)
    # measurement only: statement coverage of the value functions written as nested defs
    covered = {}
    for item in ctx.lists.pop('_cov', set()):
        fn, ln = item.rsplit('|', 1)
        covered.setdefault(fn, set()).add(int(ln))
    tot = hit = 0
    import glob
    import habutax
    root = os.path.dirname(habutax.__file__)
    for path in sorted(glob.glob(os.path.join(root, 'forms', 'ty*', 'f*.py'))):
        want = nested_function_lines(path)
        if not want:
            continue
        got = covered.get(path, set()) & want
        tot += len(want)
        hit += len(got)
        miss = sorted(want - got)
        if miss:
            ctx.note('value_function_statements_never_executed', f'{os.path.relpath(path, root)}: lines {miss[:25]}')
    ctx.extra['value_function_statements'] = tot
    ctx.extra['value_function_statements_executed'] = hit
    ctx.extra['lines_fuzzed'] = total_lines
    ctx.extra['cases_per_line'] = n


def replay(ctx, case):
    if 'real' in case:
        from hx import scenario
        r = scenario.resolve(case['real'], want_solution=False)
        e = r.exc
        if isinstance(e, (KeyError, NameError, AttributeError, IndexError)) or (isinstance(e, AssertionError) and 'hreshold' in str(e)):
            ctx.violation(f'real:unresolved:{type(e).__name__}:{str(e)[:40]}', repr(e), case)
        return
    if 'line' not in case:
        ctx.lists.setdefault('forms_deliberately_absent', set()).add(f'{case["year"]}:{case["form"]}')
        check_absent_forms(ctx)
        return
    cat = catalog.get(case['year'])
    # make sure numbered copies named in the record exist
    for tag in case['reads']:
        key = tag.split(':', 1)[1]
        cat.ensure(key.split('.')[0])
    cat.ensure(case['line'].split('.')[0])
    line = cat.lines[case['line']]
    eval_line(ctx, cat, line, None, recorded=case['reads'])
