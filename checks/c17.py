"""C17 — each year's form catalogue is consistent; status lookups are total.

Exhaustive over every (year, form class, allowed instance), every (threshold
table, filing status) pair, `list-forms` per year and jurisdiction filter, and
`list-form-inputs` for every form/instance (through habutax.main() with
captured stdout, parsed back with a strict configparser)."""
import configparser
import io
import os

import habutax.enum as henum
import habutax.form as hform
import habutax.forms as hforms

from hx import catalog, cli

PROPERTY = 'C17'
LEVEL = 'exploration'
RULE = ('exhaustive enumeration: every (year, form class, allowed instance) is instantiated and its metadata, names and thresholds are '
        'checked by structural predicates; every (status-keyed threshold table, status) pair is looked up through Form.threshold(); '
        '`list-forms` (per year, per jurisdiction) and `list-form-inputs` (per form/instance, plus invalid instances) run through '
        'habutax.main() and the printed template is parsed back. Each triple/pair/listing is a distinct case and non-trivial (it has its '
        'own expected outcome)')
ASSUMPTIONS = ['numbered input forms (W-2, 1099-*, 1098) are probed for instances None and 0..2', '"needs filing can be true" is decided by probing needs_filing() with all-true and all-false value stores']


def status_enum(year):
    return henum.filing_status_2021 if year == 2021 else henum.filing_status


class Probe(object):
    """value-store stand-in that answers every lookup with a fixed truthiness"""
    def __init__(self, truth):
        self.truth = truth

    def __getitem__(self, key):
        return _Val(self.truth)

    def __contains__(self, key):
        return self.truth


class _Val(object):
    def __init__(self, t):
        self.t = t

    def __bool__(self):
        return self.t

    def __gt__(self, o):
        return self.t

    def __lt__(self, o):
        return self.t

    def __ge__(self, o):
        return self.t

    def __le__(self, o):
        return self.t


def can_need_filing(form):
    out = False
    for truth in (True, False):
        try:
            if form.needs_filing(Probe(truth)):
                out = True
        except NotImplementedError:
            return None
        except Exception:
            out = True   # depends on real values: treat as possibly filed
    return out


def check_instances(ctx):
    for year in catalog.YEARS:
        classes = catalog.classes(year)
        names = [c.form_name for c in classes]
        for n in set(names):
            if names.count(n) > 1:
                ctx.violation(f'{year}:duplicate-form-name:{n}', f'{year}: form_name {n!r} is used by {names.count(n)} catalogue entries', {'year': year, 'form': n})
        for cls in classes:
            insts = catalog.instances_of(cls)
            if catalog.is_input_form(cls):
                insts = [None] + insts
            for inst in insts:
                ctx.case()
                full = cls.form_name if inst is None else f'{cls.form_name}:{inst}'
                key = f'{year}:{cls.form_name}'
                case = {'year': year, 'form': cls.form_name, 'instance': inst, 'part': 'instance'}
                ctx.nt(f'inst|{year}|{full}')
                try:
                    f = cls(solver=catalog.StubSolver(), instance=inst)
                except Exception as e:
                    ctx.violation(f'{key}:instantiate', f'{year} {full}: cannot be instantiated: {e!r}', case)
                    continue
                if getattr(cls, 'tax_year', None) != year or f._tax_year != year:
                    ctx.violation(f'{key}:tax-year', f'{year} {full}: declares tax_year {getattr(cls, "tax_year", None)}', case)
                if f.name() != full:
                    ctx.violation(f'{key}:name', f'{year} {full}: name() is {f.name()!r}', case)
                for attr in ('description', 'long_description'):
                    v = getattr(cls, attr, None)
                    if not isinstance(v, str) or not v.strip():
                        ctx.violation(f'{key}:{attr}', f'{year} {full}: {attr} missing or empty', case)
                if not isinstance(getattr(cls, 'jurisdiction', None), hform.Jurisdiction):
                    ctx.violation(f'{key}:jurisdiction', f'{year} {full}: jurisdiction missing', case)
                try:
                    f.full_description()
                except Exception as e:
                    ctx.violation(f'{key}:full-description', f'{year} {full}: full_description() raises {e!r}', case)
                nf = can_need_filing(f)
                if nf is None:
                    ctx.violation(f'{key}:needs-filing-undefined', f'{year} {full}: needs_filing() is not implemented', case)
                elif nf:
                    if not isinstance(getattr(cls, 'sequence_no', None), int):
                        ctx.violation(f'{key}:sequence-no', f'{year} {full}: can need filing but has no integer sequence_no', case)
                    if not f.pdf_file() or not os.path.isfile(f.pdf_file()):
                        ctx.violation(f'{key}:pdf-file', f'{year} {full}: can need filing but pdf_file() = {f.pdf_file()!r} does not exist', case)
                    if not f.pdf_fields():
                        ctx.violation(f'{key}:pdf-fields', f'{year} {full}: can need filing but has no PDF mappings', case)
                inames = [i.base_name() for i in f.inputs()]
                lnames = [l.base_name() for l in f.fields()]
                for what, lst in (('input', inames), ('line', lnames)):
                    dups = sorted({n for n in lst if lst.count(n) > 1})
                    if dups:
                        ctx.violation(f'{key}:duplicate-{what}', f'{year} {full}: duplicate {what} names {dups[:5]}', case)
                    bad = [n for n in lst if n != n.lower() or '.' in n or n != n.strip() or not n or '=' in n or ':' in n or n.startswith(('#', ';', '['))]
                    if bad:
                        ctx.violation(f'{key}:bad-{what}-name', f'{year} {full}: {what} names not lower-case/dot-free/INI-safe: {bad[:5]}', case)
                # inputs and lines know their form
                for i in f.inputs():
                    if i.name() != f'{full}.{i.base_name()}':
                        ctx.violation(f'{key}:input-qualified-name', f'{year} {full}: input {i.base_name()} reports name {i.name()}', case)
                        break
                check_thresholds(ctx, year, f, full)


def check_thresholds(ctx, year, f, full):
    se = status_enum(year)
    for tname, table in getattr(f, '_thresholds', {}).items():
        case = {'year': year, 'form': full.split(':')[0], 'instance': full.split(':')[1] if ':' in full else None, 'part': 'instance', 'threshold': tname}
        key = f'{year}:{full.split(":")[0]}:threshold:{tname}'
        if not isinstance(table, dict):
            ctx.case()
            ctx.nt(f'thr|{year}|{full}|{tname}')
            try:
                f.threshold(tname)
            except Exception as e:
                ctx.violation(key, f'{year} {full}: threshold({tname!r}) raises {e!r}', case)
            continue
        flat = []
        for k in table:
            flat.extend(k if isinstance(k, tuple) else [k])
        is_status = any(isinstance(k, (henum.filing_status, henum.filing_status_2021)) for k in flat)
        if not is_status:
            continue
        wrong_enum = [k for k in flat if not isinstance(k, se)]
        if wrong_enum:
            ctx.violation(key + ':wrong-enum', f'{year} {full}: threshold {tname!r} is keyed by another year\'s status enumeration', case)
        for st in se:
            ctx.case()
            ctx.nt(f'thr|{year}|{full}|{tname}|{st.name}')
            n = sum(1 for k in flat if k == st)
            if n != 1:
                ctx.violation(key + ':coverage', f'{year} {full}: threshold {tname!r} has {n} entries for status {st.name}', dict(case, status=st.name))
                continue
            try:
                got = f.threshold(tname, st)
            except BaseException as e:
                ctx.violation(key + ':lookup', f'{year} {full}: threshold({tname!r}, {st.name}) raises {e!r}', dict(case, status=st.name))
                continue
            want = [v for k, v in table.items() if (st in k if isinstance(k, tuple) else k == st)][0]
            if got != want:
                ctx.violation(key + ':value', f'{year} {full}: threshold({tname!r}, {st.name}) returned {got!r}, table says {want!r}', dict(case, status=st.name))


def check_list_forms(ctx):
    for year in catalog.YEARS:
        classes = catalog.classes(year)
        juris = sorted({c.jurisdiction.name for c in classes if isinstance(getattr(c, 'jurisdiction', None), hform.Jurisdiction)})
        for j in [None] + juris + [x.lower() for x in juris] + ['ZZ']:
            ctx.case()
            ctx.nt(f'list-forms|{year}|{j}')
            argv = ['list-forms', '--year', str(year)] + (['--jurisdiction', j] if j else [])
            o = cli.main_argv(argv)
            case = {'year': year, 'part': 'list-forms', 'jurisdiction': j}
            if o.exc is not None:
                ctx.violation(f'{year}:list-forms:raises', f'habutax {" ".join(argv)} raised {o.exc!r}', case)
                continue
            want = [c.form_name for c in classes if j is None or c.jurisdiction.name.lower() == j.lower()]
            rows = [ln.split('|') for ln in o.stdout.splitlines() if ln.count('|') >= 2]
            listed = [r[0].strip() for r in rows][2:] if rows else []
            if listed != want:
                ctx.violation(f'{year}:list-forms:content', f'habutax {" ".join(argv)} listed {listed[:6]}... expected {want[:6]}...', case)
            for r, c in zip(rows[2:], [c for c in classes if c.form_name in want]):
                if c.description not in r[2] or c.long_description not in '|'.join(r[2:]):
                    ctx.violation(f'{year}:list-forms:description', f'list-forms row for {c.form_name} lacks its description', case)
            if not want and 'No forms matched' not in o.stdout:
                ctx.violation(f'{year}:list-forms:empty', 'no form matches but the command does not say so', case)


def check_list_inputs(ctx):
    for year in catalog.YEARS:
        for cls in catalog.classes(year):
            insts = catalog.instances_of(cls)
            if catalog.is_input_form(cls):
                insts = [None, '0', '7']
            for inst in insts:
                ctx.case()
                full = cls.form_name if inst is None else f'{cls.form_name}:{inst}'
                ctx.nt(f'list-inputs|{year}|{full}')
                case = {'year': year, 'part': 'list-form-inputs', 'form': full}
                key = f'{year}:{cls.form_name}:list-form-inputs'
                o = cli.main_argv(['list-form-inputs', full, '--year', str(year)])
                if o.exc is not None or getattr(o, 'exit', None) not in (None, 0):
                    ctx.violation(key + ':fails', f'list-form-inputs {full} --year {year}: exc={o.exc!r} exit={getattr(o, "exit", None)} out={o.stdout[:100]!r}', case)
                    continue
                text = '\n'.join((ln[1:] if ln.startswith('#') and not ln.startswith('# ') and '=' in ln else ln) for ln in o.stdout.splitlines())
                cp = configparser.ConfigParser(interpolation=None, strict=True)
                try:
                    cp.read_file(io.StringIO(text))
                except Exception as e:
                    ctx.violation(key + ':unparsable', f'template printed for {full} ({year}) does not parse as an input file: {e!r}', case)
                    continue
                f = cls(solver=catalog.StubSolver(), instance=inst)
                want = sorted(i.base_name() for i in f.inputs())
                if cp.sections() != [full]:
                    ctx.violation(key + ':sections', f'template for {full} ({year}) has sections {cp.sections()}', case)
                elif sorted(cp[full]) != want:
                    ctx.violation(key + ':names', f'template for {full} ({year}) names {sorted(set(cp[full]) ^ set(want))[:6]} differently from the declared inputs', case)
                elif any(v.strip() for v in cp[full].values()):
                    ctx.violation(key + ':prefilled', f'template for {full} ({year}) has non-empty values', case)
            # instances that must be rejected
            if hasattr(cls, 'valid_instances'):
                for bad in (None, 'nobody', '0'):
                    ctx.case()
                    full = cls.form_name if bad is None else f'{cls.form_name}:{bad}'
                    ctx.nt(f'list-inputs-bad|{year}|{full}')
                    o = cli.main_argv(['list-form-inputs', full, '--year', str(year)])
                    if getattr(o, 'exit', None) != 1 or o.exc is not None or 'requires a form instance' not in o.stdout:
                        ctx.violation(f'{year}:{cls.form_name}:list-form-inputs:bad-instance', f'list-form-inputs {full}: expected a refusal naming the valid instances, got exit={getattr(o, "exit", None)} exc={o.exc!r}', {'year': year, 'part': 'list-form-inputs', 'form': full})
        ctx.case()
        o = cli.main_argv(['list-form-inputs', 'no_such_form', '--year', str(year)])
        if getattr(o, 'exit', None) != 1 or 'Cannot find form' not in o.stdout:
            ctx.violation(f'{year}:list-form-inputs:unknown-form', 'unknown form name is not refused cleanly', {'year': year, 'part': 'list-form-inputs', 'form': 'no_such_form'})


def run(ctx):
    if sorted(hforms.available_forms) != [2021, 2022, 2023]:
        ctx.violation('years', f'available years are {sorted(hforms.available_forms)}', {'part': 'years'})
    check_instances(ctx)
    check_list_forms(ctx)
    check_list_inputs(ctx)
    ctx.exhaustive = True
    ctx.sample({'year': 2023, 'form': '8606', 'instances': ['you', 'spouse'], 'checked': 'instantiate, tax_year, metadata, names, thresholds, needs_filing prerequisites'})
    ctx.sample({'year': 2023, 'threshold': '1040.standard_deduction', 'statuses': [s.name for s in henum.filing_status]})
    ctx.sample({'command': 'habutax list-form-inputs w-2:0 --year 2022', 'parsed_back': 'one section [w-2:0] with exactly the declared input names'})


def replay(ctx, case):
    run(ctx)
