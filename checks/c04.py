"""C04 — a solution is exactly the demand closure of the requested forms.

Set equality between what the solver holds (keys of solution(), Solver.forms)
and the demand closure computed from the final stores: superset gives "every
required line of every participating form and everything read is present",
subset gives "nothing undemanded". Real returns (all years, several requested
form sets, solved and unsolved) and generated programs with optional lines,
optional forms and numbered copies referenced under data-dependent branches."""
from hypothesis import strategies as st

from hx import campaign, hyp, progs, realcamp, scenario

PROPERTY = 'C04'
LEVEL = 'exploration'
RULE = ('real returns (answer-on-demand scenarios, requested form sets 1040 / 1040+nc_d-400 / a single schedule) and '
        'generated programs; oracle = set equality with the demand closure (and with the reference model for programs). '
        'Non-trivial = a solved case in which at least one optional line or by-reference form is present and at least one '
        'catalogue-declared optional line or form is absent; distinct = (year, requested forms, present form set, number of lines) '
        'for real returns, hash of program for generated ones'
        ' Also: the same return with drawn subsets of its inputs (always one that dozens of lines wait for) typed at the real command-line prompt; the written solution must hold every line of the direct solve.'
        ' A successful solution must hold every required line of every participating form.')
ASSUMPTIONS = ['the closure evaluator takes line objects from the solver\'s own form instances']
KINDS = ['full', 'full', 'full', 'delete', 'gates']
FORMSETS = [['1040'], ['1040'], ['1040', 'nc_d-400'], ['1040', 'nc_d-400'], ['nc_d-400'], ['1040_sb'], ['1040_s1'], ['1040_s3'], ['8959'],
            ['w-2:0', 'w-2:1'], ['1040', '1099-int:0', '1099-int:1'], ['1098:1', '1098:0', '1040']]


def input_only_check(ctx, r, v):
    """a form whose inputs were loaded only to answer i['other.x'] must not be
    in the solution; every section of the solution is a form in Solver.forms"""
    if r.exc is not None or r.solution is None:
        return
    secs = set(r.solution)
    if not secs <= set(r.forms):
        ctx.violation('real:section-without-form', f'solution sections {sorted(secs - set(r.forms))} are not participating forms', {'variant': v})
    spec_forms = {k.split('.')[0] for k in r.solver._input_map}
    input_only = spec_forms - set(r.forms)
    if input_only & secs:
        ctx.violation('real:input-only-form-in-solution', f'{sorted(input_only & secs)} were loaded for their inputs only but appear in the solution', {'variant': v})
    ctx.count('input_only_forms_seen', len(input_only))


def cli_main_check(ctx, v, r):
    """the same request through `habutax solve --form ...` (argument parsing included):
    the written solution has exactly the sections and lines of the direct solve"""
    import os
    from hx import cli, solve
    if r.exc is not None or r.solution is None or v['prompt'] is not None:
        return
    with cli.scratch() as d:
        path = os.path.join(d, 'in.ini')
        with open(path, 'w') as f:
            f.write(solve.config_to_text(solve.config_from_dict(v['inputs'])))
        sol = os.path.join(d, 'sol.ini')
        argv = ['solve', path, '--year', str(v['year']), '--solution', sol]
        for fm in v['forms']:
            argv += ['--form', fm]
        o = cli.main_argv(argv)
        text = open(sol).read() if os.path.exists(sol) else None
    ctx.case()
    ctx.count('cli_main_runs')
    case = {'variant': v, 'cli': True}
    if o.exc is not None or text is None:
        ctx.violation('cli:raises', f'habutax {" ".join(argv[2:])} raised {o.exc!r} where the direct solve returned {r.verdict}', case)
        return
    cp = solve.solution_from_text(text)
    got = {sec: set(cp[sec]) for sec in cp.sections() if sec != 'habutax'}
    want = {sec: set(dd) for sec, dd in r.solution.items()}
    if got != want:
        extra = sorted(set(got) - set(want))
        missing = sorted(set(want) - set(got))
        ctx.violation('cli:solution-sections', f'{v["year"]} requested {v["forms"]} through the command line: sections not demanded {extra[:4]}, sections missing {missing[:4]}', case)


def cli_prompt_check(ctx, v, r, moved):
    """the same return with `moved` inputs typed at the real command-line prompt
    (`habutax solve --prompt-missing`): the written solution must hold every
    section and line of the direct solve (same supplied values)"""
    import re
    from hx import cli, solve
    if r.exc is not None or r.solution is None or v['prompt'] is not None or not r.verdict or not moved:
        return
    answers = {k_: v['inputs'][k_] for k_ in moved}
    file_inputs = {k_: t for k_, t in v['inputs'].items() if k_ not in answers}

    def fn(prompt_text, idx):
        m = re.search(r'----\[ (\S+) \]----', prompt_text)
        if m is None or m.group(1) not in answers:
            return cli.Script.INT
        return answers[m.group(1)]
    with cli.scratch() as d:
        o = cli.solve(d, v['year'], v['forms'], input_text=solve.config_to_text(solve.config_from_dict(file_inputs)),
                      prompt_missing=True, writeback=False, solution=True, script=cli.FnScript(fn))
    ctx.case()
    ctx.count('cli_prompt_runs')
    case = {'variant': v, 'cli_prompt': sorted(moved)}
    if o.exc is not None or not o.solution_text:
        ctx.violation('cli-prompt:raises', f'habutax solve --prompt-missing raised {o.exc!r} where the direct solve succeeded', case)
        return
    cp = solve.solution_from_text(o.solution_text)
    got = {sec: set(cp[sec]) for sec in cp.sections() if sec != 'habutax'}
    want = {sec: set(dd) for sec, dd in r.solution.items()}
    if got != want:
        missing = sorted(f'{sec}.{l}' for sec in want for l in want[sec] - got.get(sec, set()))
        extra = sorted(f'{sec}.{l}' for sec in got for l in got[sec] - want.get(sec, set()))
        said = 'Successfully solved!' in o.stdout
        ctx.violation('cli-prompt:solution-incomplete' if missing else 'cli-prompt:solution-extra',
                      f'{v["year"]} {v["forms"]} with {len(moved)} inputs typed at the prompt (solved={said}): lines missing from the solution {missing[:6]} '
                      f'({len(missing)}), lines not demanded {extra[:4]}', case)


def shard_real(ctx, k, payload):
    n, seed = payload

    def body(data):
        forms = data.draw(st.sampled_from(FORMSETS))
        p = data.draw(scenario.personas(forms=forms))
        sc, _ = scenario.build(p, data.draw)
        v = realcamp.make_variant(data.draw, sc, KINDS)
        r = realcamp.run_variant(v)
        ctx.case()
        labels, c = realcamp.check_variant(ctx, ['C04'], v, r)
        for l in labels:
            ctx.count('real:' + l)
        ctx.count('requested:' + '+'.join(forms))
        input_only_check(ctx, r, v)
        if data.draw(st.integers(0, 4)) == 0:
            cli_main_check(ctx, v, r)
        if data.draw(st.integers(0, 5)) == 0 and r.exc is None and r.verdict and v['prompt'] is None:
            share = data.draw(st.sampled_from([0.05, 0.3, 1.0]))
            heavy = [k_ for k_ in ('1040.filing_status', '1040.number_dependents') if k_ in v['inputs']]
            moved = sorted({k_ for k_ in sorted(v['inputs']) if data.draw(st.floats(0, 1)) < share} | set(heavy[:data.draw(st.integers(0, 2))]))
            cli_prompt_check(ctx, v, r, moved)
        if r.exc is None and r.verdict:
            fm = r.solver._field_map
            optional_absent = [n_ for n_ in fm if n_ not in r.values]
            by_ref = set(r.forms) - set(v['forms'])
            if optional_absent and by_ref:
                ctx.nt(f'{v["year"]}|{v["forms"]}|{sorted(r.forms)}|{len(r.values)}')
            for f in r.forms:
                ctx.count('form_present:' + f.split(':')[0])
            if len(ctx.samples) < 4 and by_ref:
                ctx.sample({'year': v['year'], 'requested': v['forms'], 'forms_in_solution': sorted(r.forms),
                            'lines_in_solution': len(r.values), 'declared_lines_absent': len(optional_absent)})
    hyp.run_data(body, n, seed)


def run(ctx):
    quick = ctx.tier == 'quick'
    campaign.campaign(ctx, ['C04'], 1000 if quick else 20000, bad_refs_share=0.0, scheduled=False, rule='c04')
    n = 400 if quick else 10000
    shards = 8 if quick else 16
    hyp.pmap(ctx, shard_real, [(n // shards, ctx.seed * 1000 + 400 + k) for k in range(shards)])


def replay(ctx, case):
    if 'program' in case:
        campaign.replay_case(ctx, ['C04'], case)
        return
    v = case['variant']
    r = realcamp.run_variant(v)
    realcamp.check_variant(ctx, ['C04'], v, r)
    input_only_check(ctx, r, v)
    if case.get('cli'):
        cli_main_check(ctx, v, r)
    if case.get('cli_prompt'):
        cli_prompt_check(ctx, v, r, case['cli_prompt'])
