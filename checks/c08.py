"""C08 — year- and status-indexed statutory amounts are the official ones.

Exhaustive over every (year, status, amount) triple of data/statute.json, each
observed through the real line definitions by a probe: echo probes read the
line that prints the amount; straddle probes put the driving quantity at
limit-0.01 / limit / limit+0.01 and observe the branch flip. Reads not fixed by
the probe are Hypothesis draws of the catalogue type (irrelevant background).
Where the bundled template prints the amount it is parsed at run time as a
second, independent witness."""
import json
import os
import re

from hypothesis import strategies as st

import habutax.fields as hf
import habutax.form as hform

from hx import catalog, hyp, mock, pdf, scenario

PROPERTY = 'C08'
LEVEL = 'exploration'
RULE = ('exhaustive enumeration of every (tax year, filing status, statutory amount) triple in data/statute.json (standard deductions, '
        'capital-gain breakpoints, AMT amounts, child-credit amounts, Additional Medicare thresholds, HSA limits, SALT cap, QBI/EIC/saver '
        'credit limits, recovery rebate amounts, NC rate, NC standard and child deductions, foreign tax limit), each observed through a '
        'probe on the real line definition with 3 (quick) / 20 (thorough) drawn backgrounds. A probe is non-trivial when the observed '
        'line/branch actually depends on the amount: the straddle flips, or the echoed value equals the table value; distinct = '
        '(year, status, amount id)'
        ' Every triple is evaluated once more in one process, forwards then backwards (an amount must not depend on which amounts were looked up before it).')
ASSUMPTIONS = ['data/statute.json transcribes the published amounts (sources per entry); amounts printed in the templates are cross-checked at run time',
               'probe reads (which lines/inputs make the amount show) are part of the harness']

HERE = os.path.dirname(os.path.dirname(os.path.abspath(__file__)))
with open(os.path.join(HERE, 'data', 'statute.json')) as _f:
    TABLE = json.load(_f)
ST = TABLE['statuses']


def per_year(x, year):
    return x[str(year)] if isinstance(x, dict) and str(year) in x else x


def evaluate(year, line_name, reads, draw):
    """-> ('value', v) | ('ni', None) | ('abort', msg) | ('error', msg)"""
    cat = catalog.get(year)
    cat.ensure(line_name.split('.')[0])
    line = cat.lines.get(line_name)
    if line is None:
        return 'missing-line', line_name
    form = line.form()
    log = []
    mi = mock.MockStore('i', cat, form, draw, log, recorded=reads)
    mv = mock.MockStore('v', cat, form, draw, log, recorded=reads)
    try:
        return 'value', line.value(hform.FormAccessor(mi, form), hform.FormAccessor(mv, form))
    except hf.FieldNotImplemented:
        return 'ni', None
    except (mock.AbsentForm, mock.Unresolved) as e:
        return 'abort', str(e)
    except Exception as e:
        return 'error', repr(e)


def status_read(year, status):
    return {'i:1040.filing_status': {'enum': scenario.status_name(year, status)}}


def outcome_matches(kind, val, want, driver_value=None):
    if want in ('value', 'ni'):
        return kind == want
    if want == 'own':
        # the line passes its driver through (e.g. own total of interest)
        return kind == 'value' and isinstance(val, (int, float)) and abs(float(val) - float(driver_value)) <= 0.005
    if isinstance(want, float):
        return kind == 'value' and isinstance(val, (int, float)) and not isinstance(val, bool) and abs(float(val) - want) <= 0.005
    return kind == 'value' and val is want


def printed_value(entry, year, status):
    """amount as printed in the bundled template, or None"""
    pr = entry.get('printed_in_template')
    if not pr:
        return None
    cat = catalog.get(year)
    form = None
    for fname, f in cat.forms.items():
        if fname.split(':')[0] == pr['form'] and f.pdf_file():
            form = f
            fname_ = fname
            break
    if form is None:
        return None
    if 'page_text' in pr:
        full = '\n'.join(pdf.page_texts(form.pdf_file()))
        m = re.search(pr['page_text'], full)
        return float(m.group(1)) * pr.get('scale', 1.0) if m else None
    ln = per_year(pr['line'], year)
    xf = pdf.xfa_fields(form.pdf_file())
    for m_ in form.pdf_fields():
        if m_.field_name == ln:
            sp = xf.get(m_.pdf_field_name, {}).get('speak')
            if sp:
                t = sp.replace('—', '-').replace('–', '-')
                mm = re.search(pr['patterns'][status], t)
                if mm:
                    return float(mm.group(1).replace(',', ''))
    return None


def check_triple(ctx, entry, year, status, amount, draw):
    pid = entry['id']
    probe = entry['probe']
    line = per_year(probe['line'], year)
    base_reads = dict(probe.get('reads', {}))
    base_reads.update(status_read(year, status))
    case = {'id': pid, 'year': year, 'status': status}
    bucket = f'{year}:{pid}:{scenario.status_name(year, status) if status != "QSS" else "QSS"}'
    ctx.case()
    nontrivial = False
    if probe['kind'] == 'echo':
        kind, val = evaluate(year, line, base_reads, draw)
        want = float(amount)
        if probe.get('invert'):
            # the line shows scale/amount
            want = probe['scale'] / float(amount)
        if kind != 'value' or not isinstance(val, (int, float)) or abs(float(val) - want) > 0.005:
            shown = (probe['scale'] / val) if (probe.get('invert') and kind == 'value' and val) else val
            ctx.violation(bucket, f'{year} {status}: {pid} should be {amount} ({entry["source"][:90]}); line {line} shows {kind} {shown!r}', case)
        else:
            nontrivial = True
    elif probe['kind'] == 'echo_at':
        widths = probe['band_width'][status]
        start = {20000: 40000, 15000: 30000, 10000: 20000}[widths]
        band = probe['band']
        nbands = len([1 for e2 in TABLE['amounts'] if e2['id'].startswith('nc_child_deduction_band_') and str(year) in e2['values']])
        points = []
        if band < nbands - 1:
            points.append(start + band * widths)                      # inclusive upper edge of this band
            if band > 0:
                points.append(start + (band - 1) * widths + 0.01)     # just above the band below
            else:
                points.append(0.0)
        else:
            points.append(start + (band - 1) * widths + 0.01)
            points.append(10.0 ** 7)
        for agi in points:
            kind, val = evaluate(year, line, dict(base_reads, **{probe['driver']: float(agi)}), draw)
            if kind != 'value' or abs(float(val) - float(amount)) > 0.005:
                ctx.violation(bucket, f'{year} {status}: {pid}: at federal AGI {agi} the per-child deduction should be {amount}; line {line} shows {kind} {val!r}', dict(case, agi=agi))
                break
        else:
            nontrivial = True
    else:
        drv = probe['driver']
        seen = []
        ok = True
        for off, key in ((-0.01, 'below'), (0.0, 'at'), (0.01, 'above')):
            kind, val = evaluate(year, line, dict(base_reads, **{drv: round(float(amount) + off, 2)}), draw)
            seen.append((key, kind, val))
            if not outcome_matches(kind, val, probe[key], round(float(amount) + off, 2)):
                ok = False
        if not ok:
            # locate where the code actually flips, for the message
            ctx.violation(bucket, f'{year} {status}: {pid} should be {amount} ({entry["source"][:90]}); probing {line} at {amount}-0.01/{amount}/{amount}+0.01 gave '
                          f'{[(k_, kd, v_) for k_, kd, v_ in seen]}, expected {probe["below"]}/{probe["at"]}/{probe["above"]}', case)
        else:
            nontrivial = True
    if nontrivial:
        ctx.nt(f'{year}|{status}|{pid}')
    return nontrivial


def check_printed(ctx, entry, year, status, amount):
    pv = printed_value(entry, year, status)
    if pv is None:
        if entry.get('printed_in_template'):
            ctx.note('printed_amount_not_found', f'{year}:{entry["id"]}:{status}')
        return
    ctx.count('printed_witnesses')
    if abs(pv - float(amount)) > 0.005:
        ctx.violation(f'table-vs-template:{year}:{entry["id"]}:{status}', f'{year} {status}: data/statute.json says {amount} for {entry["id"]} but the bundled template prints {pv} - the table (harness) is wrong or the template is of another year',
                      {'id': entry['id'], 'year': year, 'status': status, 'printed': pv})


def shard(ctx, k, payload):
    entries, backgrounds, seed = payload
    for idx in entries:
        entry = TABLE['amounts'][idx]
        for ys, by_status in entry['values'].items():
            year = int(ys)
            for status in ST:
                amount = by_status[status]
                check_printed(ctx, entry, year, status, amount)

                def body(data, entry=entry, year=year, status=status, amount=amount):
                    check_triple(ctx, entry, year, status, amount, data.draw)
                hyp.run_data(body, backgrounds, seed + idx)
                ctx.count('triples')


def shard_sequential(ctx, k, payload):
    """every triple once more in ONE process, forwards then backwards: an amount must not depend on which
    other amounts were looked up before it (tables shared or memoised across forms, years or statuses)"""
    seed = payload
    order = list(range(len(TABLE['amounts'])))
    for direction, idxs in (('forward', order), ('backward', order[::-1])):
        for idx in idxs:
            entry = TABLE['amounts'][idx]
            years = sorted(entry['values']) if direction == 'forward' else sorted(entry['values'], reverse=True)
            for ys in years:
                sts = ST if direction == 'forward' else ST[::-1]
                for status in sts:
                    amount = entry['values'][ys][status]

                    def body(data, entry=entry, ys=ys, status=status, amount=amount):
                        check_triple(ctx, entry, int(ys), status, amount, data.draw)
                    hyp.run_data(body, 1, seed + idx)
                    ctx.count('sequential_pass:' + direction)


def run(ctx):
    quick = ctx.tier == 'quick'
    n = len(TABLE['amounts'])
    idxs = list(range(n))
    chunks = [idxs[j::16] for j in range(16)]
    hyp.pmap(ctx, shard, [(c, 3 if quick else 20, ctx.seed * 101) for c in chunks if c])
    hyp.pmap(ctx, shard_sequential, [ctx.seed * 103])
    ctx.exhaustive = True
    ctx.extra['amount_ids'] = n
    e = TABLE['amounts'][0]
    ctx.sample({'id': e['id'], 'year': 2023, 'status': 'HeadOfHousehold', 'table': e['values']['2023']['HeadOfHousehold'], 'probe': e['probe'],
                'printed_in_template': printed_value(e, 2023, 'HeadOfHousehold')})
    e = [x for x in TABLE['amounts'] if x['id'] == 'qbi_income_threshold'][0]
    ctx.sample({'id': e['id'], 'year': 2022, 'status': 'MarriedFilingJointly', 'table': e['values']['2022']['MarriedFilingJointly'], 'probe': e['probe']})


def replay(ctx, case):
    entry = [e for e in TABLE['amounts'] if e['id'] == case['id']][0]
    year, status = case['year'], case['status']
    amount = entry['values'][str(year)][status]
    if 'printed' in case:
        check_printed(ctx, entry, year, status, amount)
        return

    def body(data):
        check_triple(ctx, entry, year, status, amount, data.draw)
    hyp.run_data(body, 3, 7)
