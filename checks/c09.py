"""C09 — declaring an unsupported tax situation never yields a solved return.

(1) end-to-end: gate-mode scenarios - a persona steered so that the gate's
    owning form is pulled in, the gate answered affirmatively (alone or with up
    to two others, or inside an otherwise solving random return); a recording
    input store proves the gate was consulted; the solve must not succeed.
(2) isolated: each owning line evaluated with the gate affirmative and
    everything else drawn from the catalogue types must end not-implemented or
    abort, never in a value (this is what notices a dropped gate).
(3) limit recipes: foreign tax above the Form 1116 threshold, more payers than
    Schedule B has rows, HSA contribution above the limit, educator expenses
    above the limit, a 1099-OID - each with a just-below control that solves."""
import json
import os

from hypothesis import strategies as st

import habutax.fields as hf
import habutax.form as hform

from hx import catalog, hyp, mock, scenario, solve

PROPERTY = 'C09'
LEVEL = 'exploration'
RULE = ('gates = data/gates.json (69-74 inputs per year, reviewed). End-to-end: per gate a persona that pulls in the owning form, the '
        'gate (and sometimes 1-2 more) answered so as to declare the situation; the recording input store must show the gate read with '
        'that value; verdict must not be "solved". Isolated: owning lines with the gate declared and all other reads drawn by type. '
        'Limit recipes with a just-below control. Non-trivial = a case in which at least one gate was consulted with the declaring '
        'value; distinct = (year, set of gates consulted, forms); the headline number is gates covered / gates listed'
        " Isolated: two recorded witnesses per (gate, owning line), the second with the fewest other boxes ticked. Status-indexed limits whose far side is not implemented are probed for every year x status at drawn distances; the payer-row recipe is enumerated per year and row-amount style; inputs that only the changed return demands are answered by the persona's policy.")
ASSUMPTIONS = ['data/gates.json is the reviewed list of inputs that declare an unsupported situation (bootstrap by differential discovery, review in the file)',
               'an abort (unsupported form, e.g. Schedule 2) counts as "does not succeed"']

HERE = os.path.dirname(os.path.dirname(os.path.abspath(__file__)))
with open(os.path.join(HERE, 'data', 'gates.json')) as _f:
    GATES = json.load(_f)
# need_8962 leads to the unsupported Schedule 2 two lines later (1040.schedule_2_part_i_needed -> 1040.17 -> abort):
# end-to-end only, no single owning line ends not-implemented
with open(os.path.join(HERE, 'data', 'gate_witnesses_solo.json')) as _f:
    WITNESSES_SOLO = json.load(_f)       # per (gate, line): the recorded assignment with the fewest other boxes ticked
with open(os.path.join(HERE, 'data', 'gate_witnesses.json')) as _f:
    WITNESSES = json.load(_f)
EXTRA = {'1040.need_8962': {'declares_when': True, 'owning_lines': []}}


def gates_for(year):
    g = dict(GATES[str(year)])
    g.update(EXTRA)
    return g


def persona_for(gate, p):
    """steer the persona so that the gate's form takes part"""
    form = gate.split('.')[0].split(':')[0]
    base = gate.split('.', 1)[1]
    inst = gate.split('.')[0].split(':')[1] if ':' in gate.split('.')[0] else None
    if form == '8889':
        p['hsa_you'] = True
        p['s1_adjust'] = True
        if inst == 'spouse':
            p['status'] = 'MarriedFilingJointly'
            p['hsa_spouse'] = True
    elif form == '8606':
        p['ira'] = '8606'
        p['n_r'] = max(1, p['n_r'])
        if inst == 'spouse':
            p['status'] = 'MarriedFilingJointly'
            p['force_spouse_1099r'] = True
    elif form == '8959':
        p['status'] = 'MarriedFilingSeparately'
        p['wage_level'] = 'high'
        p['n_w2'] = 1
    elif form == '8995':
        p['s199a'] = True
        p['n_div'] = max(1, p['n_div'])
        p['wage_level'] = 'mid'
        p['amount_bias'] = 'typical'
    elif form == '1040_sa':
        p['itemize'] = True
        p['n_1098'] = max(1, p['n_1098'])
        p['amount_bias'] = 'large'
    elif form == '1040_sb':
        p.update(n_int=3, big_interest=True, amount_bias='large', huge_interest=True)
    elif form == '1040_s3':
        p['foreign_tax'] = True
        p['n_int'] = max(1, p['n_int'])
        p['amount_bias'] = 'typical'
    elif form == '1040_s8812':
        if not p['deps']:
            p['deps'] = ['ctc']
        p['wage_level'] = 'high' if p['wage_level'] in ('low', 'mid') else p['wage_level']
    elif form == '1040_s1':
        p['s1_income'] = True
        p['s1_adjust'] = True
    elif form == '1040_qualdiv_capgain_tax_wkst':
        p['n_div'] = max(1, p['n_div'])
        p['amount_bias'] = 'typical'
    elif form.startswith('nc_'):
        p['forms'] = ['1040', 'nc_d-400']
        p['n_1098'] = max(1, p['n_1098'])
        p['nc_deductions'] = True
        p['nc_additions'] = True
        if p['status'] == 'QSS':
            p['status'] = 'Single'
    elif form == 'w-2':
        p['n_w2'] = max(1, p['n_w2'])
    elif form == '1099-r':
        p['n_r'] = max(1, p['n_r'])
        p['ira'] = 'none'
    elif form == '1040':
        if base.startswith('ira_exception4'):
            p['ira'] = 'plain'
            p['n_r'] = max(1, p['n_r'])
            if 'spouse' in base:
                p['status'] = 'MarriedFilingJointly'
                p['force_spouse_1099r'] = True
        if base in ('qualified_dividends_incorrect', 'ordinary_dividends_incorrect'):
            p['n_div'] = max(1, p['n_div'])
            p['amount_bias'] = 'typical'
        if base in ('rrta_compensation', 'self_employment_income'):
            p['wage_level'] = 'mid'
    return p


def concrete_keys(gate, inputs):
    """input-file keys that instantiate a (possibly ':*') gate name"""
    if ':*' in gate:
        form, base = gate.split('.', 1)
        stem = form.split(':')[0] + ':'
        return sorted(k for k in inputs if k.startswith(stem) and k.split('.', 1)[1] == base and k.split('.')[0].split(':')[1].isdigit())
    return [gate] if gate in inputs else []


def consulted_gates(year, r, flips):
    """gates read with the declaring value by a line that can act on it. A payer
    statement (W-2, 1099-R ...) mirrors each of its inputs in a line of its own;
    that mirror reading the input is not yet a consultation - a line of another
    form reading the mirrored value is"""
    cat = catalog.get(year)
    consulted = set()
    listed = gates_for(year)
    for name, reads, _ in r.trace.attempts:
        lform = name.split('.')[0]
        for kind, key, outcome, val in reads:
            if outcome != 'ok' or key not in flips or val is not flips[key]:
                continue
            # only a line for which the input *is* a gate consults it; other lines may use the same answer as
            # data (NC Schedule A reads 1040.standard_deduction_exceptions to set the NC standard deduction to 0)
            owners = listed.get(scenario.norm_key(key), {}).get('owning_lines')
            if owners and scenario.norm_key(name) not in {scenario.norm_key(o) for o in owners}:
                continue
            kform = key.split('.')[0]
            cls = cat.cmap.get(kform.split(':')[0])
            mirror = cls is not None and catalog.is_input_form(cls)
            if mirror:
                if kind == 'v' and lform != kform:
                    consulted.add(key)
            elif kind == 'i':
                consulted.add(key)
    return consulted


def run_gate_case(ctx, year, sc, flips, case):
    """flips: {concrete key: declaring bool}; returns set of gates consulted with the declaring value"""
    inputs = dict(sc['inputs'])
    for k, val in flips.items():
        inputs[k] = 'yes' if val else 'no'
    r = scenario.resolve({'year': year, 'forms': sc['forms'], 'inputs': inputs}, want_solution=False)
    ctx.case()
    consulted = consulted_gates(year, r, flips)
    solved = r.exc is None and bool(r.verdict)
    if consulted and solved:
        for k in sorted(consulted):
            g = scenario.norm_key(k)
            ctx.violation(f'{year}:solved-with-gate:{g}', f'{year} {sc["forms"]}: {k} was consulted and answered {flips[k]} (declaring an unsupported situation) but solve() returned True',
                          dict(case, inputs=inputs, flips={kk: vv for kk, vv in flips.items()}))
    return consulted, r


def shard_targeted(ctx, k, payload):
    year, gates, reps, seed = payload
    listed = gates_for(year)
    for gate in gates:
        info = listed[gate]

        def body(data, gate=gate, info=info):
            p = data.draw(scenario.personas(years=(year,)))
            p = persona_for(gate, p)
            sc, base = scenario.build(p, data.draw)
            keys = concrete_keys(gate, sc['inputs'])
            if not keys:
                ctx.count('targeted:gate_not_demanded_by_persona')
                return
            flips = {data.draw(st.sampled_from(keys)): info['declares_when']}
            # sometimes declare one or two more situations in the same return
            others = [g2 for g2 in listed if g2 != gate and concrete_keys(g2, sc['inputs'])]
            for _ in range(data.draw(st.sampled_from([0, 0, 1, 2]))):
                if others:
                    g2 = data.draw(st.sampled_from(others))
                    flips[concrete_keys(g2, sc['inputs'])[0]] = listed[g2]['declares_when']
            consulted, r = run_gate_case(ctx, year, sc, flips, {'year': year, 'forms': sc['forms'], 'gate': gate})
            for c in consulted:
                ctx.note('gates_covered', f'{year}:{scenario.norm_key(c)}')
            if consulted:
                ctx.nt(f'{year}|{sorted(consulted)}|{sc["forms"]}|{data.draw(st.integers(0, 10 ** 6))}')
                ctx.count('targeted:consulted')
                if len(ctx.samples) < 4:
                    ctx.sample({'year': year, 'forms': sc['forms'], 'declared': sorted(flips), 'consulted': sorted(consulted),
                                'verdict': r.verdict, 'abort': repr(r.exc) if r.exc else None, 'unimplemented': getattr(r, 'unimplemented', [])[:4]})
            else:
                ctx.count('targeted:flipped_but_not_consulted')
        hyp.run_data(body, reps, seed + mock.edit_distance(gate, '') * 31)


def shard_random(ctx, k, payload):
    n, seed = payload

    def body(data):
        p = data.draw(scenario.personas())
        sc, base = scenario.build(p, data.draw)
        year = sc['year']
        listed = gates_for(year)
        present = [(g, kk) for g in listed for kk in concrete_keys(g, sc['inputs'])]
        if not present:
            return
        m = data.draw(st.integers(1, min(3, len(present))))
        chosen = data.draw(st.lists(st.sampled_from(present), min_size=m, max_size=m, unique=True))
        flips = {kk: listed[g]['declares_when'] for g, kk in chosen}
        consulted, r = run_gate_case(ctx, year, sc, flips, {'year': year, 'forms': sc['forms'], 'gate': 'random'})
        for c in consulted:
            ctx.note('gates_covered', f'{year}:{scenario.norm_key(c)}')
        if consulted:
            ctx.nt(f'{year}|{sorted(consulted)}|{sc["forms"]}|r{data.draw(st.integers(0, 10 ** 6))}')
            ctx.count('random:consulted')
    hyp.run_data(body, n, seed)


def shard_isolated(ctx, k, payload):
    year, gates, n, seed = payload
    cat = catalog.get(year)
    listed = gates_for(year)
    for gate in gates:
        info = listed[gate]
        gkey = gate.replace(':*', ':0')
        for lname in info['owning_lines']:
            cat.ensure(lname.split('.')[0])
            line = cat.lines.get(lname)
            if line is None:
                ctx.violation(f'{year}:owning-line-missing:{gate}', f'{year}: gate {gate} lists owning line {lname}, which does not exist', {'year': year, 'gate': gate, 'line': lname, 'mode': 'isolated'})
                continue
            seen = {'read': 0}
            wit = WITNESSES.get(f'{year}|{gkey if ":*" not in gate else gate.replace(":*", ":0")}|{lname}')
            if wit is None and ':*' in gate:
                cands = [v_ for k_, v_ in WITNESSES.items() if k_.startswith(f'{year}|{gate.split(":*")[0]}:') and k_.endswith(f'{gate.split(":*")[1]}|{lname}')]
                wit = None
                for k_, v_ in WITNESSES.items():
                    yy, gg, ll = k_.split('|')
                    if yy == str(year) and ll == lname and scenario.norm_key(gg) == gate:
                        wit, gkey = v_, gg
                        break

            def body(data, line=line, lname=lname, witness=None):
                log = []
                form = line.form()
                rec = {f'i:{gkey}': info['declares_when'], f'v:{gkey}': info['declares_when']}
                if witness is not None:
                    rec = dict(witness, **rec)
                mi = mock.MockStore('i', cat, form, data.draw, log, recorded=rec)
                mv = mock.MockStore('v', cat, form, data.draw, log, recorded=rec)
                ctx.case()
                try:
                    val = line.value(hform.FormAccessor(mi, form), hform.FormAccessor(mv, form))
                    out = 'value'
                except hf.FieldNotImplemented:
                    out = 'ni'
                except (mock.AbsentForm, mock.Unresolved):
                    out = 'abort'
                except Exception:
                    out = 'error'
                read_gate = any(key == gkey for _, key, _ in log)
                if read_gate:
                    seen['read'] += 1
                    ctx.nt(f'iso|{year}|{lname}|{[(k_, v_) for _, k_, v_ in log][:6]}')
                    if out == 'value':
                        ctx.violation(f'{year}:line-computes-with-gate:{gate}', f'{year}: line {lname} read {gkey}={info["declares_when"]} and still produced the value {val!r} (reads: {[(k_, v_) for _, k_, v_ in log][:6]})',
                                      {'year': year, 'gate': gate, 'line': lname, 'mode': 'isolated', 'reads': {f'{kk}:{key}': v_ for kk, key, v_ in log}})
            wit2 = None
            for k_, v_ in WITNESSES_SOLO.items():
                yy, gg, ll = k_.split('|')
                if yy == str(year) and ll == lname and (gg == gkey or scenario.norm_key(gg) == gate) and v_ != wit:
                    wit2 = v_
                    if wit is None:
                        gkey = gg
                    break
            if wit2 is not None:
                # second recorded assignment: the gate reached with as few other boxes ticked as possible (its own branch)
                before = seen['read']
                hyp.run_data(lambda data: body(data, witness=wit2), 6, seed + 1)
                ctx.count('isolated:solo_witness_runs')
                if seen['read'] == before:
                    ctx.violation(f'{year}:gate-dropped:{gate}', f'{year}: under the recorded single-box witness assignment, line {lname} no longer consults {gkey} - the gate was dropped or moved',
                                  {'year': year, 'gate': gate, 'line': lname, 'mode': 'isolated'})
            if wit is not None:
                # deterministic part: the recorded assignment under which this line consulted the gate at the pinned tree
                before = seen['read']
                hyp.run_data(lambda data: body(data, witness=wit), 3, seed)
                if seen['read'] == before:
                    ctx.violation(f'{year}:gate-dropped:{gate}', f'{year}: under the recorded witness assignment, line {lname} no longer consults {gkey} - the gate was dropped or moved',
                                  {'year': year, 'gate': gate, 'line': lname, 'mode': 'isolated'})
            hyp.run_data(body, n, seed)
            if seen['read'] == 0:
                ctx.note('gates_not_reached_in_isolation', f'{year}:{gate}:{lname}')
            else:
                ctx.note('gates_isolated', f'{year}:{gate}')


# ---------------------------------------------------------------------------
def shard_limits(ctx, k, payload):
    n, seed = payload[0], payload[1]
    lim = GATES['limits']

    def solved(sc, inputs, pol=None):
        # inputs that only the changed return demands (e.g. "is Schedule 3 part I needed" once the foreign tax is gone)
        # are answered by the persona's policy, as when the return was built
        fn = (lambda inp, nb: pol.answer(inp)) if pol is not None else None
        r = scenario.resolve({'year': sc['year'], 'forms': sc['forms'], 'inputs': inputs}, answer_fn=fn, want_solution=False)
        return (r.exc is None and bool(r.verdict)), r

    forced = payload[2] if len(payload) > 2 else None      # (recipe, year, style): the payer-row recipe is enumerated, not drawn

    def body(data):
        recipe = forced[0] if forced else data.draw(st.sampled_from(['foreign_tax', 'foreign_tax', 'educator', 'hsa', 'oid', 'payers']))
        p = data.draw(scenario.personas(forms=['1040']))
        if forced:
            p['year'] = forced[1]
            p = scenario.constrain(p)
        p['amount_bias'] = 'typical'
        if recipe == 'foreign_tax':
            p.update(foreign_tax=True, n_int=max(1, p['n_int']))
        elif recipe == 'educator':
            p.update(s1_adjust=True)
        elif recipe == 'hsa':
            p.update(hsa_you=True, s1_adjust=True)
        elif recipe == 'payers':
            p.update(n_int=2, big_interest=True, huge_interest=True)
        sc, base = scenario.build(p, data.draw)
        if base.exc is not None or not base.verdict:
            ctx.count('limits:base_not_solved')
            return
        year, inputs = sc['year'], dict(sc['inputs'])
        mfj = p['status'] == 'MarriedFilingJointly'
        case = {'year': year, 'forms': sc['forms'], 'gate': 'limit:' + recipe, 'mode': 'limit'}
        over = under = None
        if recipe == 'foreign_tax' and '1099-int:0.box_6' in inputs:
            limit = lim['foreign_tax_1116']['MarriedFilingJointly' if mfj else 'other']
            # every statement holds its boxes in dollars and cents: texts with sub-cent digits count rounded
            others = sum(round(float(v or 0), 2) for kk, v in inputs.items() if (kk.endswith('.box_6') and kk.startswith('1099-int:') or kk.endswith('.box_7') and kk.startswith('1099-div:')) and kk != '1099-int:0.box_6')
            under = dict(inputs, **{'1099-int:0.box_6': f'{max(0.0, limit - others):.2f}'})
            over = dict(inputs, **{'1099-int:0.box_6': f'{max(0.0, limit - others) + 0.01 + data.draw(st.sampled_from([0, 1, 500])):.2f}'})
        elif recipe == 'educator' and '1040_s1.educator_expenses' in inputs:
            limit = lim['educator_expenses']['implemented_limit']
            under = dict(inputs, **{'1040_s1.educator_expenses': f'{limit:.2f}'})
            over = dict(inputs, **{'1040_s1.educator_expenses': f'{limit + 0.01 + data.draw(st.sampled_from([0, 50])):.2f}'})
        elif recipe == 'hsa' and '8889:you.hsa_contributions' in inputs:
            limit = lim['hsa_self_only'][str(year)]
            emp = round(float(inputs.get('8889:you.employer_contribution', '0') or 0), 2)
            under = dict(inputs, **{'8889:you.hsa_contributions': f'{max(0.0, limit - emp):.2f}'})
            over = dict(inputs, **{'8889:you.hsa_contributions': f'{max(0.0, limit - emp) + 0.01 + data.draw(st.sampled_from([0, 100])):.2f}'})
        elif recipe == 'oid':
            under = dict(inputs)
            over = dict(inputs, **{'1040.number_1099-oid': '1'})
        elif recipe == 'payers' and '1099-int:0.box_1' in inputs:
            rows = lim['schedule_b_rows']
            def with_n(nn):
                d = dict(inputs)
                d['1040.number_1099-int'] = str(nn)
                for c in range(nn):
                    for kk, v in inputs.items():
                        if kk.startswith('1099-int:0.'):
                            d[f'1099-int:{c}.' + kk.split('.', 1)[1]] = v
                    d[f'1099-int:{c}.box_6'] = '0'
                    d[f'1099-int:{c}.box_3'] = '0'
                    d[f'1099-int:{c}.box_1'] = amounts[c]
                return d
            # per-payer amounts: sometimes the first 14 rows alone stay under the Schedule B threshold
            style = forced[2] if forced else data.draw(st.sampled_from(['big', 'small_then_big', 'mixed']))
            amounts = []
            for c in range(rows + 1):
                if style == 'big':
                    amounts.append('900.00')
                elif style == 'small_then_big':
                    amounts.append('100.00' if c < rows else '450.00')
                else:
                    amounts.append(data.draw(st.sampled_from(['50.00', '107.25', '900.00'])))
            under, over = with_n(rows), with_n(rows + 1)
        if over is None:
            ctx.count('limits:recipe_not_applicable')
            return
        pol = scenario.Policy(p, data.draw)
        ok_u, ru = solved(sc, under, pol)
        ok_o, ro = solved(sc, over, pol)
        over = solve.config_to_dict(ro.store.config)       # the completed file replays without a prompt
        ctx.case(2)
        ctx.count('limits:' + recipe)
        probe = {'oid': '1040.number_1099-oid', 'foreign_tax': '1099-int:0.box_6', 'educator': '1040_s1.educator_expenses',
                 'hsa': '8889:you.hsa_contributions', 'payers': '1040.number_1099-int'}[recipe]
        read = any(key == probe and o == 'ok' for _, reads, _ in ro.trace.attempts for kind, key, o, _v in reads if kind == 'i')
        if recipe == 'oid':
            # the count is consulted only on the path that does not go through Schedule B
            read = any(key == probe and o == 'ok' and nm == '1040.2b' for nm, reads, _ in ro.trace.attempts for kind, key, o, _v in reads if kind == 'i')
        if recipe == 'payers' and not any(f_.split(':')[0] == '1040_sb' for f_ in ro.forms):
            # fifteen payers whose interest stays under the Schedule B threshold need no Schedule B: its 14 rows are no limit then
            ctx.count('limits:payers_schedule_b_not_required')
            return
        if not read:
            ctx.count('limits:amount_not_consulted:' + recipe)
            return
        if ok_o:
            ctx.violation(f'{year}:solved-beyond-limit:{recipe}', f'{year} {p["status"]}: {recipe} beyond the implemented limit still yields a solved return', dict(case, inputs=over))
        if ok_u:
            ctx.nt(f'limit|{year}|{recipe}|{p["status"]}|{data.draw(st.integers(0, 10 ** 6))}')
            ctx.count('limits:control_at_limit_solves:' + recipe)
        else:
            ctx.count('limits:control_did_not_solve:' + recipe)
    hyp.run_data(body, n, seed)


def shard_limit_probes(ctx, k, payload):
    """status-indexed limits beyond which a line is not implemented (QBI income threshold, EIC income limits,
    saver's credit limit, foreign tax without Form 1116): for every year x status the owning line, evaluated
    on catalogue-typed mock stores with the driving amount anywhere on the unsupported side, must end
    not-implemented. Exhaustive over (limit, year, status); the distance beyond the limit is drawn."""
    from checks import c08
    entries, n, seed = payload
    for idx in entries:
        e = c08.TABLE['amounts'][idx]
        pr = e['probe']
        for ys, by_status in e['values'].items():
            year = int(ys)
            for status in c08.ST:
                amount = float(by_status[status])
                line = c08.per_year(pr['line'], year)
                reads = dict(pr.get('reads', {}))
                reads.update(c08.status_read(year, status))
                ni_above = pr['above'] == 'ni'

                def body(data, year=year, status=status, amount=amount, line=line, reads=reads, ni_above=ni_above, e=e):
                    dist = data.draw(st.sampled_from([0.01, 0.01, 1.0, 37.5, 1000.0])) if ni_above else data.draw(st.sampled_from([0.01, 0.01, 1.0, 37.5, min(1000.0, amount)]))
                    x = round(amount + dist, 2) if ni_above else round(amount - dist, 2)
                    kind, val = c08.evaluate(year, line, dict(reads, **{pr['driver']: x}), data.draw)
                    ctx.case()
                    if kind == 'ni':
                        ctx.nt(f'limitprobe|{year}|{status}|{e["id"]}|{dist}')
                        ctx.count('limit_probes:not_implemented')
                    elif kind == 'value':
                        ctx.violation(f'{year}:value-beyond-limit:{e["id"]}:{status}', f'{year} {status}: {line} with {pr["driver"]}={x} (limit {amount:g}, {e["id"]}) is on the unsupported side of the limit '
                                      f'but the line produced the value {val!r} instead of declaring not-implemented', {'year': year, 'mode': 'limit_probe', 'id': e['id'], 'status': status, 'x': x})
                    else:
                        ctx.count('limit_probes:' + kind)
                hyp.run_data(body, n, seed + idx)


def run(ctx):
    quick = ctx.tier == 'quick'
    from checks import c08
    lp = [j for j, e in enumerate(c08.TABLE['amounts']) if e['probe']['kind'] == 'straddle' and 'ni' in (e['probe'].get('above'), e['probe'].get('below'))]
    hyp.pmap(ctx, shard_limit_probes, [([j], 4 if quick else 40, ctx.seed * 7) for j in lp])
    reps = 2 if quick else 20
    payloads, iso = [], []
    total = 0
    for year in catalog.YEARS:
        gl = sorted(gates_for(year))
        total += len(gl)
        for j in range(0, len(gl), 5):
            payloads.append((year, gl[j:j + 5], reps, ctx.seed * 131))
        for j in range(0, len(gl), 12):
            iso.append((year, gl[j:j + 12], 25 if quick else 300, ctx.seed * 17))
    hyp.pmap(ctx, shard_targeted, payloads)
    hyp.pmap(ctx, shard_isolated, iso)
    hyp.pmap(ctx, shard_random, [((300 if quick else 6000) // 8, ctx.seed * 1000 + k) for k in range(8)])
    hyp.pmap(ctx, shard_limits, [((120 if quick else 3000) // 8, ctx.seed * 1000 + 300 + k) for k in range(8)])
    hyp.pmap(ctx, shard_limits, [(3 if quick else 40, ctx.seed * 1000 + 400 + j, ('payers', year, style))
                                 for j, (year, style) in enumerate((y_, s_) for y_ in catalog.YEARS for s_ in ('big', 'small_then_big', 'mixed'))])
    hyp.pmap(ctx, shard_limits, [(4 if quick else 60, ctx.seed * 1000 + 450 + j, (recipe, year, None))
                                 for j, (recipe, year) in enumerate((r_, y_) for r_ in ('foreign_tax', 'educator', 'hsa', 'oid') for y_ in catalog.YEARS)])
    covered = ctx.lists.get('gates_covered', set())
    ctx.extra['gates_listed'] = total
    ctx.extra['gates_consulted_end_to_end'] = len(covered)
    allg = {f'{y}:{g}' for y in catalog.YEARS for g in gates_for(y)}
    for g in sorted(allg - covered):
        ctx.note('gates_never_consulted_end_to_end', g)


def replay(ctx, case):
    if case.get('mode') == 'limit_probe':
        from checks import c08
        j = [j_ for j_, e in enumerate(c08.TABLE['amounts']) if e['id'] == case['id']][0]
        shard_limit_probes(ctx, 0, ([j], 12, 7))
        return
    if case.get('mode') == 'isolated':
        year = case['year']
        shard_isolated(ctx, 0, (year, [case['gate']], 25, 17))
        return
    year = case['year']
    sc = {'year': year, 'forms': case['forms'], 'inputs': case['inputs']}
    r = scenario.resolve(sc, want_solution=False)
    if case.get('mode') == 'limit':
        if case['gate'] == 'limit:payers' and not any(f_.split(':')[0] == '1040_sb' for f_ in r.forms):
            return
        if r.exc is None and r.verdict:
            ctx.violation(f'{year}:solved-beyond-limit:{case["gate"].split(":")[1]}', 'still solves beyond the limit', case)
        return
    flips = case['flips']
    if r.exc is None and r.verdict:
        for key in consulted_gates(year, r, flips):
            ctx.violation(f'{year}:solved-with-gate:{scenario.norm_key(key)}', f'{key} consulted with {flips[key]}, solved', case)
